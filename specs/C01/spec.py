"""C01 -- every task runs exactly once, on one worker at a time (DESIGN.md section 4, "### C01").

U1  combined_tagged_state (F)                                      cts.c    cts.*
U2  thread_data state-word steps (S)                               word.c   word.*
U3  switch_status ctor / store_state / dtor / operator= (S)        word.c   sw.*
L1  ownership lemmas over the U2/U3 contracts                      lemma.c  lemma.*   (+ census of write sites)
    the OTHER writers of the word (set_thread_state, abort_all_suspended_threads) and the runner's own set_state_ex
                                                                   other.c  other.*
U4  scheduling-loop fragment "run one task" (T over S)             loop.c   loop.run_one
U5  (slice) thread_queue::schedule_thread / get_next_thread (I+T)  queue.c  queue.*
Master templates are specialised per unit into gen/ (unit_template); specs/C01/muts.sh is the mutant battery.
"""
import re

from vx.lift import (Lift, Sub, Call, Members, Guard, DropStmt, Rule, LiftError, match_close, split_args, locate,
                     resolve_pp, apply_rules, GENERIC_RULES, splice_loops, strip_comments, _blocks, _stmt_end)
from vx.run import Unit

CTS = "libs/pika/coroutines/include/pika/coroutines/detail/combined_tagged_state.hpp"
ENUMS_HPP = "libs/pika/coroutines/include/pika/coroutines/thread_enums.hpp"
TD = "libs/pika/threading_base/include/pika/threading_base/thread_data.hpp"
LOOP = "libs/pika/thread_pools/include/pika/thread_pools/scheduling_loop.hpp"
STS = "libs/pika/threading_base/src/set_thread_state.cpp"
TQ = "libs/pika/schedulers/include/pika/schedulers/thread_queue.hpp"
STACKFUL = "libs/pika/threading_base/include/pika/threading_base/thread_data_stackful.hpp"
STACKLESS = "libs/pika/threading_base/include/pika/threading_base/thread_data_stackless.hpp"


# ---------------------------------------------------------------------------------------------------------------
# local helper rules (all purely structural; reported to the framework owner)


class EnumClass(Rule):
    """`enum class NAME : std::intN_t { a = 0, b = 1, ... };`  ->
         typedef intN_t NAME;  enum { NAME_a = (0), NAME_b = (1), ... };
         #define NAME_IS_ENUMERATOR(x) ((x) == NAME_a || (x) == NAME_b || ...)
    The enumerator list (names and values) is copied; the predicate is the disjunction over exactly that list."""
    n = 1

    def apply(self, text):
        m = re.match(r"\s*enum\s+class\s+(\w+)\s*:\s*(?:std::)?(\w+)\s*\{(.*)\}\s*;\s*$", text, re.S)
        if not m:
            raise LiftError("EnumClass: not a scoped enum definition: %r" % text[:60])
        name, under, body = m.group(1), m.group(2), m.group(3)
        items = []
        for it in split_args(body):
            if not it.strip():
                continue
            mi = re.match(r"^(\w+)\s*=\s*(.+)$", it.strip(), re.S)
            if not mi:
                raise LiftError("EnumClass: enumerator without explicit value: %r" % it)
            items.append((mi.group(1), " ".join(mi.group(2).split())))
        if not items:
            raise LiftError("EnumClass: empty enum")
        out = ["typedef %s %s;" % (under, name),
               "enum { %s };" % ", ".join("%s_%s = (%s)" % (name, a, v) for a, v in items),
               "#define %s_IS_ENUMERATOR(x) (%s)" % (name, " || ".join("(x) == %s_%s" % (name, a) for a, v in items))]
        return "\n".join(out) + "\n"


class ConstDefs(Rule):
    """`static TYPE const NAME = EXPR;` -> `#define NAME ((TYPE)(EXPR))`, one per line (C++14 digit separators removed).
    Anything else left in the fragment is an extraction failure.  (Same idea as specs/C14 ConstDefs.)"""

    def __init__(self, n="+"):
        self.n = n

    def apply(self, text):
        out, k, rest = [], 0, text
        for m in re.finditer(r"static\s+(?:std::)?([\w:]+)\s+const\s+(\w+)\s*=\s*([^;]+);", text):
            k += 1
            expr = re.sub(r"(?<=[0-9a-fA-F])'(?=[0-9a-fA-F])", "", " ".join(m.group(3).split()))
            out.append("#define %s ((%s)(%s))" % (m.group(2), m.group(1), expr))
            rest = rest.replace(m.group(0), "", 1)
        self.check(k, "ConstDefs")
        if rest.strip():
            raise LiftError("ConstDefs: unexpected text in the constants fragment: %r" % rest.strip()[:80])
        return "\n".join(out) + "\n"


class CtorLift(Lift):
    """A constructor: the mem-initialiser list `: a_(x), b_(y.f())` becomes the assignments `self->a_ = (x); ...` in front of
    the (lifted) constructor body; then the unit rules run.  (Same as specs/C07 CtorLift.)"""

    def run(self):
        body, line, header = locate(self.src, self.locate, self.which, self.expect, ctor=True)
        raw = header + body
        op = header.index("(")
        cl = match_close(header, op)
        rest = header[cl + 1:].strip()
        if not rest.startswith(":"):
            raise LiftError("CtorLift: no mem-initialiser list after /%s/" % self.locate)
        inits = []
        for item in split_args(rest[1:]):
            m = re.match(r"\s*(\w+)\s*[({](.*)[)}]\s*$", item, re.S)
            if not m:
                raise LiftError("CtorLift: cannot parse initialiser %r" % item)
            inits.append("self->%s = (%s);" % (m.group(1), m.group(2).strip()))
        text = "{ " + " ".join(inits) + " " + body.strip()[1:]
        text = resolve_pp(text)
        text = apply_rules(text, self.rules)
        text = apply_rules(text, GENERIC_RULES)
        text = apply_rules(text, self.post)
        text, nloops = splice_loops(text, self.loops)
        return {"text": text, "line": line, "file": self.src, "raw": raw, "nloops": nloops, "header": header}


class FrameLift(Lift):
    """Lift whose loop contracts may contain `@IF_ASSIGNED(x)`: replaced by `, x` when the lifted body contains an assignment
    to the plain identifier x (`x = ..`, `x op= ..`, `++x`, `x++`), by nothing otherwise.  This is (a fragment of) CBMC's own
    syntactic loop-frame inference, needed because dfcc's inference does not see through the calls of the atomic stubs.
    Sound by construction: CBMC checks every assignment of the loop against the assigns clause ("is assignable")."""

    def run(self):
        r = Lift(self.src, self.locate, self.rules, None, self.which, self.expect, self.ctor, self.fragment_end, self.generic,
                 self.post, self.keep_braces).run()
        body = r["text"]

        def frame(m):
            x = re.escape(m.group(1))
            hit = re.search(r"(?<![\w.>])%s\s*(?:=(?!=)|[-+*/|&^%%]=|\+\+|--)|(?:\+\+|--)\s*%s\b" % (x, x), body)
            return (", " + m.group(1)) if hit else ""

        loops = {k: (re.sub(r"@IF_ASSIGNED\((\w+)\)", frame, v) if isinstance(v, str) else v) for k, v in self.loops.items()}
        r["text"], r["nloops"] = splice_loops(body, loops)
        return r


CENSUS_RX = (r"current_state_\s*(?:\.store|\.compare_exchange\w*|\.exchange|\(|=[^=])|[>.]set_state_tagged\(|[>.:]restore_state\(|"
             r"[>.]set_state\(|\bset_state_ex\(")


class CensusLift(Lift):
    """A-CLOSED support (DESIGN 3.4): greps every *.hpp / *.cpp under libs/ for textual write accesses to current_state_ and for
    calls of the writer members (set_state, set_state_tagged, restore_state, set_state_ex), and compares the per-file counts
    with the census the units were written against.  A new / vanished site is an extraction failure (exit 2, 'unverified
    mutator').  The lifted text is a C comment listing the sites."""

    def __init__(self, expected):
        Lift.__init__(self, "libs", "census")
        self.expected = expected

    def run(self):
        import os
        from vx import lift as L
        found, lines = {}, []
        root = os.path.join(L.REPO, "libs")
        for d, _, fs in os.walk(root):
            for f in fs:
                if not f.endswith((".hpp", ".cpp")) or f == "combined_tagged_state.hpp":
                    continue
                path = os.path.join(d, f)
                try:
                    txt = open(path, encoding="utf-8", errors="replace").read()
                except OSError:
                    continue
                if "state" not in txt:
                    continue
                rel = os.path.relpath(path, L.REPO)
                for i, ln in enumerate(txt.split("\n")):
                    st = ln.strip()
                    if st.startswith("//") or st.startswith("*") or st.startswith("/*"):
                        continue
                    if re.search(CENSUS_RX, ln):
                        found[rel] = found.get(rel, 0) + 1
                        lines.append("%s:%d: %s" % (rel, i + 1, " ".join(st.split())[:110]))
        if found != self.expected:
            diff = sorted(set(found.items()) ^ set(self.expected.items()))
            raise LiftError("census of current_state_ write sites changed (unverified mutator?): %r" % diff)
        text = "/* census of write sites of thread_data::current_state_ (taken on this run):\n" + \
               "\n".join(" *   " + l.replace("*/", "* /") for l in sorted(lines)) + "\n */\n"
        return {"text": text, "line": 1, "file": "libs", "raw": text, "nloops": 0, "header": ""}


class Call0(Call):
    """Call with n=None but WITHOUT the fixed-point re-scan (replacement contains the head again).  From specs/C19."""

    def __init__(self, head, template, stmt=False, n=None):
        Call.__init__(self, head, template, n, stmt)

    def apply(self, text):
        self._nested = True
        return Call.apply(self, text)


class Method(Rule):
    """member call `RECV.name(args)` / `RECV->name(args)` -> template with {recv} (an lvalue expression), {0}, {1}, {args};
    RECV is found by scanning backwards over identifiers, `::`, `.`, `->` and balanced (...) / [...] groups.  From specs/C19."""

    def __init__(self, name, template, n=None):
        self.name, self.template, self.n = name, template, n

    @staticmethod
    def _recv_start(text, dot):
        i = dot
        while True:
            if i >= 1 and text[i - 1] in ")]":
                close = text[i - 1]
                open_ = "(" if close == ")" else "["
                depth, q = 0, i - 1
                while q >= 0:
                    if text[q] == close:
                        depth += 1
                    elif text[q] == open_:
                        depth -= 1
                        if depth == 0:
                            break
                    q -= 1
                if q < 0:
                    raise LiftError("Method: unbalanced receiver")
                i = q
                continue
            mm = re.search(r"\w+$", text[:i])
            if mm:
                i = mm.start()
                if text[i - 2: i] in ("::", "->"):
                    i -= 2
                    continue
                if text[i - 1: i] == ".":
                    i -= 1
                    continue
            break
        return i

    def apply(self, text):
        k, scan = 0, 0
        rx = re.compile(r"(\.|->)%s\s*\(" % self.name)
        while True:
            m = rx.search(text, scan)
            if not m:
                break
            rs = self._recv_start(text, m.start())
            recv = text[rs: m.start()].strip()
            if not recv:
                raise LiftError("Method(%s): empty receiver" % self.name)
            if m.group(1) == "->":
                recv = "*(%s)" % recv
            op = m.end() - 1
            cl = match_close(text, op)
            args = split_args(text[op + 1: cl])
            env = {"args": text[op + 1: cl].strip(), "recv": recv}
            try:
                tmpl = self.template(args, env) if callable(self.template) else self.template
                rep = re.sub(r"\{(\d+|args|recv)\}",
                             lambda mo: args[int(mo.group(1))] if mo.group(1).isdigit() else env[mo.group(1)], tmpl)
            except IndexError:
                raise LiftError("Method(%s): template needs more arguments than %r" % (self.name, args))
            text = text[:rs] + rep + text[cl + 1:]
            scan = rs + len(rep)
            k += 1
        self.check(k, "Method(%s)" % self.name)
        return text


def unit_template(master, defines):
    """Specialise a master template for one unit: the `#ifdef U_x / #if defined(U_x) || ... / #else / #endif` blocks of the
    master are resolved for the unit's U_ defines and the result is written to gen/<master>.<defines>.c (regenerated on every
    run).  Reason: vx.run's native replay wraps every //@FUNC of the rendered text, including those of inactive #ifdef
    blocks, which breaks the replay program of multi-unit templates.  Conditionals that mention anything but U_ macros
    are passed through untouched."""
    import os
    from vx.run import VERIF
    here = os.path.join(VERIF, "specs", "C01")      # (spec.py is exec'd by vx.run without __file__)
    defs = set(d.split("=")[0] for d in defines)
    out, stack = [], []      # stack entries: None (foreign conditional) or [parent_active, taken, active]
    for line in open(os.path.join(here, master)).read().split("\n"):
        m = re.match(r"\s*#\s*(ifdef|ifndef|if|elif|else|endif)\b\s*(.*)$", line)
        active = all(e is None or e[2] for e in stack)
        if m:
            d, rest = m.group(1), m.group(2).strip()
            if d in ("ifdef", "ifndef", "if"):
                names = re.findall(r"[A-Za-z_]\w*", re.sub(r"\bdefined\b", "", rest))
                if names and all(n.startswith("U_") for n in names):
                    if d == "if":
                        e = re.sub(r"defined\s*\(\s*(\w+)\s*\)", lambda mm: "True" if mm.group(1) in defs else "False", rest)
                        e = e.replace("||", " or ").replace("&&", " and ").replace("!", " not ")
                        v = bool(eval(e, {"__builtins__": {}}, {}))
                    else:
                        v = (rest in defs) == (d == "ifdef")
                    stack.append([active, v, v and active])
                    continue
                stack.append(None)
            elif d in ("elif", "else"):
                if stack and stack[-1] is not None:
                    if d == "elif":
                        raise LiftError("unit_template: #elif on U_ macros not supported")
                    e = stack[-1]
                    e[2] = (not e[1]) and e[0]
                    e[1] = True
                    continue
            elif d == "endif":
                e = stack.pop()
                if e is not None:
                    continue
        if active:
            out.append(line)
    os.makedirs(os.path.join(here, "gen"), exist_ok=True)
    rel = os.path.join("gen", "%s.%s.c" % (os.path.splitext(master)[0], "+".join(sorted(defs)) or "plain"))
    text = "\n".join(out)
    path = os.path.join(here, rel)
    if not os.path.exists(path) or open(path).read() != text:
        with open(path, "w") as f:
            f.write(text)
    return rel


# ---------------------------------------------------------------------------------------------------------------
# shared lifts: enums, constants and member functions of combined_tagged_state (used, inlined, by every template)

SCHED_ENUM = Sub(r"(?:(?:pika::)?threads::detail::)?thread_schedule_state::(\w+)", r"thread_schedule_state_\1", None)
RESTART_ENUM = Sub(r"(?:(?:pika::)?threads::detail::)?thread_restart_state::(\w+)", r"thread_restart_state_\1", None)
ACC = Sub(r"(?<![\w.>])(state|state_ex|tag)\(\)", r"cts_\1(self)", None)     # own accessor call -> C function on self

CTS_LIFTS = {
    "enum_schedule": Lift(ENUMS_HPP, r"enum class thread_schedule_state\s*:", fragment_end=r"\}\s*;", rules=[EnumClass()], generic=False),
    "enum_restart": Lift(ENUMS_HPP, r"enum class thread_restart_state\s*:", fragment_end=r"\}\s*;", rules=[EnumClass()], generic=False),
    "consts": Lift(CTS, r"static std::size_t const state_shift", fragment_end=r"\btag_mask\s*=[^;]*;", rules=[ConstDefs(5)], generic=False),
    "extract_tag": Lift(CTS, r"static tag_type extract_tag\("),
    "extract_state": Lift(CTS, r"static thread_state_type extract_state\("),
    "extract_state_ex": Lift(CTS, r"static thread_state_ex_type extract_state_ex\("),
    "pack_state": Lift(CTS, r"static tagged_state_type pack_state\("),
    "state": Lift(CTS, r"\bT1 state\(\) const", rules=[Members(["state_"])]),
    "state_ex": Lift(CTS, r"\bT2 state_ex\(\) const", rules=[Members(["state_"])]),
    "tag": Lift(CTS, r"\btag_type tag\(\) const", rules=[Members(["state_"])]),
    "ctor": CtorLift(CTS, r"\bcombined_tagged_state\(T1 state, T2 state_ex, tag_type t = 0\)"),
}
CTS_FUNCS = [CTS + ": combined_tagged_state::{extract_tag, extract_state, extract_state_ex, pack_state, state, state_ex, tag, "
                   "combined_tagged_state(T1, T2, tag_type)} + shift/mask constants",
             ENUMS_HPP + ": enum class thread_schedule_state, enum class thread_restart_state (enumerator lists)"]

SETTERS = {
    "set_state": Lift(CTS, r"\bvoid set_state\(T1 state\)", rules=[ACC, Members(["state_"])]),
    "set_state_ex": Lift(CTS, r"\bvoid set_state_ex\(T2 state_ex\)", rules=[ACC, Members(["state_"])]),
    "set_tag": Lift(CTS, r"\bvoid set_tag\(tag_type t\)", rules=[ACC, Members(["state_"])]),
}
CONV = ["--conversion-check"]

UNITS = [
    Unit("cts.pack_state", unit_template("cts.c", ["U_PACK_STATE"]), defines=["U_PACK_STATE"], enforce="pack_state", lifts=dict(CTS_LIFTS),
         funcs=[CTS + ": combined_tagged_state::pack_state, extract_state, extract_state_ex, extract_tag", CTS_FUNCS[1]],
         min_obligations=12, extra_flags=CONV,
         doc="F: for every enumerator pair and every tag in [0, 2^48): extract_state/extract_state_ex/extract_tag of "
             "pack_state(s, e, t) are s, e, t; pack_state's own PIKA_ASSERTs hold; no overflow / narrowing"),
    Unit("cts.set_state", unit_template("cts.c", ["U_SET_STATE"]), defines=["U_SET_STATE"], enforce="cts_set_state", lifts=dict(CTS_LIFTS, set_state=SETTERS["set_state"]),
         funcs=[CTS + ": combined_tagged_state::set_state"], min_obligations=12, extra_flags=CONV,
         doc="F: set_state(s) makes state() == s and leaves state_ex() and tag() untouched, for every well-formed word"),
    Unit("cts.set_state_ex", unit_template("cts.c", ["U_SET_STATE_EX"]), defines=["U_SET_STATE_EX"], enforce="cts_set_state_ex",
         lifts=dict(CTS_LIFTS, set_state_ex=SETTERS["set_state_ex"]),
         funcs=[CTS + ": combined_tagged_state::set_state_ex"], min_obligations=12, extra_flags=CONV,
         doc="F: set_state_ex(e) makes state_ex() == e and leaves state() and tag() untouched"),
    Unit("cts.set_tag", unit_template("cts.c", ["U_SET_TAG"]), defines=["U_SET_TAG"], enforce="cts_set_tag", lifts=dict(CTS_LIFTS, set_tag=SETTERS["set_tag"]),
         funcs=[CTS + ": combined_tagged_state::set_tag"], min_obligations=12, extra_flags=CONV,
         doc="F: set_tag(t) makes tag() == t for every t in [0, 2^48) and leaves state() and state_ex() untouched"),
    Unit("cts.accessors", unit_template("cts.c", ["U_ACCESSORS"]), defines=["U_ACCESSORS"], kind="lemma", lifts=dict(CTS_LIFTS),
         funcs=[CTS + ": combined_tagged_state::state, state_ex, tag, combined_tagged_state(T1, T2, tag_type)"],
         min_obligations=6,
         doc="F: the accessors read the three fields (for EVERY 64-bit word), the three-argument constructor is pack_state, "
             "and the three fields determine the word (operator== on words is equality of the field triples)"),
    Unit("cts.tag_wrap", unit_template("cts.c", ["U_TAG_WRAP"]), defines=["U_TAG_WRAP"], kind="lemma", lifts=dict(CTS_LIFTS),
         funcs=[CTS + ": combined_tagged_state(T1, T2, tag_type) at t == 2^48"], min_obligations=4,
         doc="documents assumption A-TAG: at tag 2^48 - 1 the callers' `tag() + 1` spills into the state_ex byte (reach markers); "
             "pack_state's PIKA_ASSERTs do not object (its third assertion tests `state`, not `tag`)"),
]


# ---------------------------------------------------------------------------------------------------------------
# U2: thread_data steps on current_state_

def _make(args, env):
    if len(args) == 3:
        return "cts_make(%s, %s, %s)" % tuple(args)
    if len(args) == 2:      # tag_type t = 0
        return "cts_make(%s, %s, 0)" % tuple(args)
    raise LiftError("thread_state(...) with %d arguments" % len(args))


def _make_decl(args, env):
    return "struct thread_state %s = %s" % (env["h1"], _make(args, env))


ORDER_ARGS = r"(?:load_order|exchange_order|load_exchange|order)"
WORD_RULES = [
    SCHED_ENUM, RESTART_ENUM,
    Sub(r"\bfor\s*\(\s*;\s*;\s*\)", "while (1)", None),                       # `for (;;)` -> `while (1)` (same loop)
    Sub(r",\s*%s\b(?=\s*\))" % ORDER_ARGS, "", None),                          # named std::memory_order arguments (A-SC)
    Sub(r"\(\s*%s\s*\)" % ORDER_ARGS, "()", None),
    Call0(r"(?<![\w.>:])thread_state\s+(\w+)", _make_decl),                    # thread_state x(a, b, c);
    Call0(r"(?<![\w.>:])thread_state", _make),                                # temporary thread_state(a, b, c)
    Sub(r"(?<![\w.>:])(?<!struct )thread_state\s+(const\s+)?(\w+)\s*(=|;)", r"struct thread_state \1\2 \3", None),
    Method("state", "cts_state(&{recv})"), Method("state_ex", "cts_state_ex(&{recv})"), Method("tag", "cts_tag(&{recv})"),
    Method("load", "atomic_load(&{recv})"),
    Method("compare_exchange_strong", "atomic_cas_strong(&{recv}, &{0}, {1})"),
    # an overload that forwards to the other overload (unqualified member call): C has no overloads -> by argument count
    Call0(r"(?<![\w.>:])restore_state(?=\s*\()", lambda a, e: ("restore_state_1(self, %s)" if len(a) == 2 else "restore_state_2(self, %s)") % ", ".join(a)),
    Members(["current_state_"], optional=["current_state_"]),
]
REF_PARAMS = Sub(r"(?<![\w.>])(prev_state|new_tagged_state)\b", r"(*\1)", "+")     # C++ reference parameters -> pointers

# loop contracts of the two CAS-retry loops.  `state_ex` (a by-value parameter) is in the frame only if the loop assigns it.
LOOP_SET_STATE = """
__CPROVER_assigns(prev_state, self->current_state_, WORD_GHOST @IF_ASSIGNED(state_ex))
__CPROVER_loop_invariant(lin_count == LIN_BASE && g_loads >= 1 && g_loads <= 2 && g_cas >= 0 && g_cas <= 2 && WF(self->current_state_) && A_TAG1(self->current_state_))
__CPROVER_loop_invariant(WF(prev_state) && A_TAG1(prev_state) && WEQ(prev_state, g_last_read))
__CPROVER_loop_invariant(E_ENUM(state_ex) && (state_ex == g_arg_ex || g_arg_ex == E_UNKNOWN))
"""
LOOP_SET_STATE_EX = """
__CPROVER_assigns(prev_state, self->current_state_, WORD_GHOST)
__CPROVER_loop_invariant(lin_count == LIN_BASE && g_loads >= 1 && g_loads <= 2 && g_cas >= 0 && g_cas <= 2 && WF(self->current_state_) && A_TAG1(self->current_state_))
__CPROVER_loop_invariant(WF(prev_state) && A_TAG1(prev_state) && WEQ(prev_state, g_last_read))
"""

TD_LIFTS = {
    "set_state_body": FrameLift(TD, r"\bthread_state set_state\(thread_schedule_state state,", rules=WORD_RULES,
                           loops={1: LOOP_SET_STATE, "count": 1}),
    "set_state_tagged_body": Lift(TD, r"\bbool set_state_tagged\(thread_schedule_state newstate,", rules=[REF_PARAMS] + WORD_RULES),
    "restore_state_1_body": Lift(TD, r"\bbool restore_state\(thread_state new_state, thread_state old_state,", rules=WORD_RULES),
    "restore_state_2_body": Lift(TD, r"\bbool restore_state\(thread_schedule_state new_state, thread_restart_state state_ex,", rules=WORD_RULES),
    "set_state_ex_body": Lift(TD, r"\bthread_restart_state set_state_ex\(thread_restart_state new_state\)", rules=WORD_RULES,
                              loops={1: LOOP_SET_STATE_EX, "count": 1}),
    "get_state_body": Lift(TD, r"\bthread_state get_state\(std::memory_order order", rules=WORD_RULES),
}


def word_unit(name, define, enforce, key, func, doc, min_obl=30, extra_keys=(), **kw):
    return Unit(name, unit_template("word.c", [define]), defines=[define], enforce=enforce,
                lifts=dict(CTS_LIFTS, **{k: TD_LIFTS[k] for k in (key,) + tuple(extra_keys)}),
                funcs=[TD + ": thread_data::" + func] + CTS_FUNCS[:1], min_obligations=min_obl, doc=doc, **kw)


UNITS += [
    word_unit("word.set_state", "U_SET_STATE", "set_state", "set_state_body", "set_state",
              "S: returns after exactly one successful CAS; that step sets the schedule state as requested, bumps the tag by +1 iff "
              "the state changes, and touches state_ex only if asked (unknown == keep); returns the replaced word"),
    word_unit("word.set_state_tagged", "U_SET_STATE_TAGGED", "set_state_tagged", "set_state_tagged_body", "set_state_tagged",
              "S: one CAS; true IFF the word equalled prev at that CAS, and then the word is (new, prev.ex, prev.tag + 1); "
              "false = no own step"),
    word_unit("word.restore_state_1", "U_RESTORE_STATE_1", "restore_state_1", "restore_state_1_body",
              "restore_state(thread_state, thread_state)",
              "S: one CAS; succeeds IFF the word still has old_state's (state, tag) (state_ex ignored: taken from the load); "
              "then (new.state, ex unchanged, tag + 1 iff the state changes)", extra_keys=("restore_state_2_body",)),
    word_unit("word.restore_state_2", "U_RESTORE_STATE_2", "restore_state_2", "restore_state_2_body",
              "restore_state(thread_schedule_state, thread_restart_state, thread_state)",
              "S: one CAS; succeeds IFF the word equalled old_state; then (new_state, state_ex as asked, tag + 1 iff the state changes)"),
    word_unit("word.set_state_ex", "U_SET_STATE_EX", "set_state_ex", "set_state_ex_body", "set_state_ex",
              "S: exactly one successful CAS that changes state_ex only; returns the replaced state_ex"),
    word_unit("word.get_state", "U_GET_STATE", "get_state", "get_state_body", "get_state", "S: one load, no step", min_obl=5),
]


# ---------------------------------------------------------------------------------------------------------------
# U3: switch_status (scheduling_loop.hpp); constructor / destructor are explicit units (RAII lowered by hand-written
# signatures `switch_status_ctor` / `switch_status_dtor`, bodies lifted)

def _restore_overload(args, env):
    """thread_data::restore_state has two overloads; C has none: resolve by the number of arguments (syntactic)"""
    if len(args) == 2:
        return "restore_state_1(&{recv}, {0}, {1})"
    if len(args) == 3:
        return "restore_state_2(&{recv}, {0}, {1}, {2})"
    raise LiftError("restore_state with %d arguments" % len(args))


SW_MEMBERS = ["thread_", "prev_state_", "orig_state_", "next_thread_id_", "need_restore_state_"]
SW_RULES = [
    SCHED_ENUM, RESTART_ENUM,
    Call0(r"(?<![\w.>:])thread_state", _make),
    Method("state", "cts_state(&{recv})"), Method("state_ex", "cts_state_ex(&{recv})"), Method("tag", "cts_tag(&{recv})"),
    Method("set_state_tagged", "set_state_tagged(&{recv}, {0}, &{1}, &{2})"),
    Method("restore_state", _restore_overload),
    Call0(r"(?<![\w.>])store_state", "switch_status_store_state(self, &({0}))"),       # own member call, reference argument
    Sub(r"(?<![\w.>])disable_restore\(\)", "switch_status_disable_restore(self)", None),
    Sub(r"(?<![\w.>])newstate\b", "(*newstate)", None),                                # reference parameter of store_state
    Members(SW_MEMBERS, optional=SW_MEMBERS),
]
SW_LIFTS = {
    "sw_ctor": CtorLift(LOOP, r"\bswitch_status\(thread_id_ref_type const& t, thread_state prev_state\)", rules=SW_RULES),
    "sw_dtor": Lift(LOOP, r"~switch_status\(\)", rules=SW_RULES),
    "sw_is_valid": Lift(LOOP, r"\bbool is_valid\(\) const", rules=SW_RULES),
    "sw_get_previous": Lift(LOOP, r"\bthread_schedule_state get_previous\(\) const", rules=SW_RULES),
    "sw_disable_restore": Lift(LOOP, r"\bvoid disable_restore\(\)", rules=SW_RULES),
    "sw_store_state": Lift(LOOP, r"\bbool store_state\(thread_state& newstate\)", rules=SW_RULES),
    "sw_assign": Lift(LOOP, r"\bthread_state operator=\(thread_result_type&& new_state\)", rules=SW_RULES),
    "sw_move_next_thread": Lift(LOOP, r"\bthread_id_ref_type move_next_thread\(\)", rules=SW_RULES),
}
SW_COMMON = {k: SW_LIFTS[k] for k in ("sw_is_valid", "sw_get_previous", "sw_disable_restore")}
SW_TD = {k: TD_LIFTS[k] for k in ("set_state_tagged_body", "restore_state_1_body", "restore_state_2_body")}


def sw_unit(name, defines, enforce, keys, func, doc, min_obl=60):
    return Unit(name, unit_template("word.c", defines), defines=defines, enforce=enforce,
                lifts=dict(CTS_LIFTS, **SW_COMMON, **SW_TD, **{k: SW_LIFTS[k] for k in keys}),
                funcs=[LOOP + ": switch_status::" + func, TD + ": thread_data::set_state_tagged, restore_state (inlined)"],
                min_obligations=min_obl, doc=doc)


UNITS += [
    sw_unit("sw.ctor", ["U_SW_CTOR"], "switch_status_ctor", ["sw_ctor"], "switch_status, is_valid, get_previous",
            "S: is_valid() <=> this worker's CAS prev -> (active, prev.ex, prev.tag + 1) succeeded <=> the word equalled prev at the CAS; "
            "orig_state_ is the word it wrote"),
    sw_unit("sw.store_state", ["U_SW_STORE"], "switch_status_store_state", ["sw_store_state"], "store_state, disable_restore",
            "S: succeeds <=> the word still has this worker's (state, tag) at the CAS; then publishes (prev_state_.state, ex untouched, "
            "tag + 1 iff the state changes) and reports prev_state_; a refused store takes no step; restore disabled either way"),
    sw_unit("sw.store_state.owner", ["U_SW_STORE", "U_OWNER_RELY"], "switch_status_store_state", ["sw_store_state"], "store_state",
            "S (<=): under the runner's rely (nobody else moves an active word; lemma.ownership) a store on a word that still is "
            "this worker's (active, orig.tag) is never refused"),
    sw_unit("sw.dtor", ["U_SW_DTOR"], "switch_status_dtor", ["sw_dtor", "sw_store_state"], "~switch_status",
            "S: a status that is not valid or already stored does not access the word; a valid, unstored one restores prev_state_ once, "
            "and only if the word still is this worker's"),
    sw_unit("sw.assign", ["U_SW_ASSIGN"], "switch_status_assign", ["sw_assign"], "operator=(thread_result_type&&)",
            "F: prev_state_ becomes (returned state, ex kept, tag + 1), next thread id recorded, the word is not accessed", min_obl=30),
]


# ---------------------------------------------------------------------------------------------------------------
# L1: lemma harnesses over the U2/U3 contracts
LAYOUT = {k: CTS_LIFTS[k] for k in ("enum_schedule", "enum_restart", "consts")}
# census of Mut(current_state_) the units were written against: file -> number of matching lines (see CENSUS_NOTES in META)
CENSUS = {
    TD: 6,                      # 5 compare_exchange_strong (set_state, set_state_tagged, restore_state x2, set_state_ex) + set_state_ex's signature
    "libs/pika/threading_base/src/thread_data.cpp": 2,                          # constructor init, rebind_base store
    STS: 1,                     # set_thread_state: restore_state(new_state, new_state_ex, previous_state)
    STACKFUL: 1, STACKLESS: 1,  # call(): set_state_ex(signaled)
    LOOP: 3,                    # switch_status ctor / store_state, pending_boost set_state(pending)
    TQ: 1,                      # abort_all_suspended_threads
    "libs/pika/schedulers/include/pika/schedulers/queue_holder_thread.hpp": 1,  # abort_all_suspended_threads (ends in `throw`)
}
UNITS += [
    Unit("lemma.rely", unit_template("lemma.c", ["U_RELY"]), defines=["U_RELY"], kind="lemma", lifts=dict(LAYOUT), min_obligations=8,
         funcs=["(lemma over the guarantee / rely relations of specs/C01/word.h)"],
         doc="rely/guarantee side conditions on the full 64-bit domain: STEP => RELY_GEN, STEP_OTHER => RELY_OWNER, relies reflexive "
             "and transitive, WF/A-TAG stable, the runner's switch-in and store are STEPs"),
    Unit("lemma.ownership", unit_template("lemma.c", ["U_OWNERSHIP"]), defines=["U_OWNERSHIP"], kind="lemma",
         lifts=dict(LAYOUT, census=CensusLift(CENSUS)),
         min_obligations=5, funcs=["(lemma over the contracts of word.set_state_tagged, sw.ctor, sw.store_state)"],
         doc="L1: of two set_state_tagged(active, prev = (pending, e, t)) at most one succeeds; while the winner runs the word is "
             "untouched and no switch-in from a pending prev succeeds; the phase publishes tag + 2, so a stale prev never succeeds later"),
]


# ---------------------------------------------------------------------------------------------------------------
# L1 (unit side): the other writers of current_state_

NS = Sub(r"(?:::)?(?:pika::)?threads::detail::", "", None)                      # namespace qualifiers
VALUE_ACC = [Method("state", "cts_state_v({recv})"), Method("state_ex", "cts_state_ex_v({recv})"), Method("tag", "cts_tag_v({recv})")]


def _set_state_default(args, env):
    """thread_data::set_state(state, state_ex = thread_restart_state::unknown, ...): default argument made explicit"""
    if len(args) == 1:
        return "set_state(&{recv}, {0}, thread_restart_state_unknown)"
    if len(args) == 2:
        return "set_state(&{recv}, {0}, {1})"
    raise LiftError("set_state with %d arguments" % len(args))


OTHER_TD = {
    "get_state_body": TD_LIFTS["get_state_body"], "set_state_body": TD_LIFTS["set_state_body"],
    "restore_state_2_body": TD_LIFTS["restore_state_2_body"], "set_state_ex_body": TD_LIFTS["set_state_ex_body"],
}
STS_RULES = [
    NS, SCHED_ENUM, RESTART_ENUM,
    Call0(r"\bPIKA_THROWS_IF", "vx_throws_if()"),                               # error reporting: T stub (C16/C19 decide throw-vs-ec)
    Call0(r"\bstd::string\s+str\s*=\s*fmt::format", "", stmt=True),             # message text
    Sub(r"if\s*\(\s*&ec\s*!=\s*&throws\s*\)\s*ec\s*=\s*make_success_code\(\)\s*;", "vx_ec_success();", None),
    Call0(r"\bthread_init_data\s+data", "", stmt=True),                         # description of the deferred set_active_state task
    Call0(r"(?<![\w.>:])create_work", "vx_create_work_set_active_state()"),
    Call0(r"pika::execution::this_thread::detail::yield_k", "vx_yield_k({0})"),
    Call0(r"(?<![\w.>:])thread_state", _make),
    Sub(r"(?<![\w.>:])(?<!struct )thread_state\s+(const\s+)?(\w+)\s*(=|;)", r"struct thread_state \1\2 \3", None),
    Method("get_state", "get_state(&{recv})"),
] + VALUE_ACC + [
    Method("restore_state", _restore_overload),
    Sub(r"\bauto\*\s*(\w+)\s*=\s*get_thread_id_data", r"struct thread_data *\1 = get_thread_id_data", None),
    Sub(r"\bauto\*\s*scheduler\s*=\s*[^;]*;", "", None),
    Call0(r"\bscheduler->schedule_thread", "sb_schedule_thread({0})"),
    Call0(r"\bscheduler->do_some_work", "sb_do_some_work()"),
]
LOOP_STS = """
__CPROVER_assigns(previous_state, k, g_td.current_state_, WORD_GHOST, T_GHOST)
__CPROVER_loop_invariant(lin_count == 0 && WF(g_td.current_state_) && A_TAG1(g_td.current_state_) && REAL_STATE(W_STATE(g_td.current_state_)))
__CPROVER_loop_invariant(g_sched == 0 && g_dsw == 0 && g_create_work == 0 && g_throws == 0 && g_success == 0 && g_sched_after_steps == 0)
__CPROVER_loop_invariant(g_loads >= 0 && g_loads <= 2 && g_cas >= 0 && g_cas <= 2 && g_yields >= 0 && g_yields <= 2)
"""
ABORT_RULES = [
    NS, SCHED_ENUM, RESTART_ENUM,
    Sub(r"\bauto\s+(\w+)\s*=\s*get_thread_id_data", r"struct thread_data *\1 = get_thread_id_data", None),
    Sub(r"\bauto\s+(const\s+)?(\w+)\s*=\s*(\w+)->get_state\(\)", r"struct thread_state \1\2 = \3->get_state()", None),
    Method("get_state", "get_state(&{recv})"),
] + VALUE_ACC + [
    Method("set_state", _set_state_default),
    Method("restore_state", _restore_overload),
    Call0(r"(?<![\w.>:])thread_id_ref_type", "vx_id_of({0})"),                  # thread_id_ref_type(thread_data*)
    Call0(r"(?<![\w.>:])schedule_thread", "tq_schedule_thread(self, {0})"),     # own member call
]
RUNNER_RULES = [
    NS, SCHED_ENUM, RESTART_ENUM,
    Sub(r"\bthis->thread_data::", "", None),                                    # qualified call of the base-class member
    DropStmt(r"\bPIKA_ASSERT(?=\(this == coroutine_)", 1),                      # identity of the coroutine object (C12)
    DropStmt(r"pika::execution::this_thread::detail::reset_agent\s+ctx", None), # agent context switch (C12; stackful only)
    Call0(r"(?<![\w.>:])get_state", "get_state(self)"),
] + VALUE_ACC + [
    Call0(r"(?<![\w.>:])set_state_ex", "set_state_ex(self, {0})"),
    Call0(r"(?<![\w.>:])coroutine_", "coroutine_call({0})"),
]


def other_unit(name, define, enforce, key, lift, funcs, doc, min_obl=60):
    defines, td = [define], dict(OTHER_TD)
    if define == "U_ABORT_ALL":
        # syntactic dependency detection: inline thread_data::set_state (and its loop contract) only if the fragment calls it
        try:
            calls = "set_state(&" in lift.run()["text"]
        except LiftError:
            calls = True          # the unit itself will report the extraction failure
        if calls:
            defines.append("U_CALLS_SET_STATE")
    if "U_CALLS_SET_STATE" not in defines:
        del td["set_state_body"]
    if define != "U_RUNNER":
        del td["set_state_ex_body"]
    return Unit(name, unit_template("other.c", defines), defines=defines, enforce=enforce,
                lifts=dict(CTS_LIFTS, **td, **{key: lift}), funcs=funcs, min_obligations=min_obl, doc=doc)


UNITS += [
    other_unit("other.set_thread_state", "U_SET_THREAD_STATE", "set_thread_state", "set_thread_state_body",
               Lift(STS, r"\bthread_state set_thread_state\(thread_id_type const& thrd,", rules=STS_RULES, loops={1: LOOP_STS, "count": 1}),
               [STS + ": threads::detail::set_thread_state (set_active_state writes the word only through it)",
                TD + ": thread_data::get_state, restore_state(state, state_ex, old) (inlined)"],
               "S+T: at most one step, never from an active or terminated word and never to active (STEP_OTHER asserted at the CAS); a "
               "thread it makes pending is handed to schedule_thread exactly once, after the step; an already pending thread is not "
               "queued again; an active thread is deferred (create_work) or spun on, never written; null id / `active` request: no effect"),
    other_unit("other.abort_all_suspended", "U_ABORT_ALL", "abort_one", "abort_one_body",
               Lift(TQ, r"auto thrd = threads::detail::get_thread_id_data\((?:\*\s*\w+|\w+)\);",
                    fragment_end=r"schedule_thread\(threads::detail::thread_id_ref_type\(thrd\)\);\s*\}",
                    # the loop element: `*it` of the iterator loop or the variable of a range-for over thread_map_
                    rules=[Sub(r"get_thread_id_data\((?:\*\s*\w+|\w+)\);", "get_thread_id_data(*it);", 1)] + ABORT_RULES),
               [TQ + ": thread_queue::abort_all_suspended_threads (fragment: loop body for one element of thread_map_)",
                TD + ": thread_data::get_state, set_state (inlined)"],
               "S+T: only a SUSPENDED word is moved (to (pending, abort)), in particular never an active one (STEP_OTHER asserted at "
               "the CAS); the thread is queued exactly once iff this call woke it"),
    other_unit("other.runner_set_state_ex", "U_RUNNER", "stackful_call", "stackful_call_body",
               Lift(STACKFUL, r"coroutine_type::result_type call\(", rules=RUNNER_RULES),
               [STACKFUL + ": thread_data_stackful::call", TD + ": thread_data::set_state_ex, get_state (inlined)"],
               "S+T: the runner's own step inside its phase keeps (active, tag) and only sets state_ex = signaled; the coroutine (task "
               "body) is entered exactly once per call, with the previous state_ex"),
    other_unit("other.runner_set_state_ex.stackless", "U_RUNNER", "stackful_call", "stackful_call_body",
               Lift(STACKLESS, r"stackless_coroutine_type::result_type call\(\)", rules=RUNNER_RULES),
               [STACKLESS + ": thread_data_stackless::call", TD + ": thread_data::set_state_ex, get_state (inlined)"],
               "S+T: same contract for the stackless variant of call()"),
]


# ---------------------------------------------------------------------------------------------------------------
# U4: the scheduling-loop fragment that runs one task


class WrapIteration(Rule):
    """The fragment is (part of) one iteration of `while (true)`: wrap it into `do { ... } while (0);` so that its `continue`
    statements have a loop to continue (= leave the iteration) and RAII lowering finds the scope they leave."""
    n = 1

    def apply(self, text):
        return "do {\n" + text + "\n} while (0);"


SP = r"scheduler\.SchedulingPolicy::"
FRAG_RULES = [
    WrapIteration(),
    NS, SCHED_ENUM, RESTART_ENUM,
    Sub(r"(?:pika::)?execution::thread_priority::(\w+)", r"thread_priority_\1", None),
    # instrumentation without effect on the task or the queues (inactive in this build: empty structs) / logging helpers
    DropStmt(r"\btfunc_time_wrapper\s+\w+", None), DropStmt(r"\bexec_time_wrapper\s+\w+", None),
    DropStmt(r"\bis_active_wrapper\s+\w+", None),
    DropStmt(r"\bwrite_state_log(?:_warning)?", None),
    # RAII: switch_status thrd_stat(thrd, state);
    Guard(r"\bswitch_status\s+(\w+)\(\s*(\w+)\s*,\s*(\w+)\s*\);", r"struct switch_status \1; switch_status_ctor(&\1, \2, \3);",
          r"switch_status_dtor(&\1);", 1),
    # the coroutine call = task body entered; its result is assigned to the switch_status (operator=)
    Sub(r"(\w+)\s*=\s*\(\*(\w+)\)\((\w+)\);", r"switch_status_assign(&\1, task_body(\2, \3));", 1),
    # thread ids: moves empty their source, assignments drop the reference held before
    Call0(r"\bstd::move", "vx_move_tid(&({0}))"),
    Sub(r"\bthread_id_type\(\)", "NULL", None),
    Sub(r"(?<![\w.>])(thrd|next_thrd)\s*=(?!=)\s*([^;]+);", r"tid_assign(&\1, \2);", None),
    # thread_state locals and accessors
    Sub(r"(?<![\w.>:])(?<!struct )thread_state\s+(const\s+)?(\w+)\s*(=|;)", r"struct thread_state \1\2 \3", None),
    Method("get_state", "get_state(&{recv})"),
] + VALUE_ACC + [
    Method("set_state", lambda a, e: _set_state_default(a, e).replace("set_state(", "set_state_after_phase(", 1)),   # + ghost archive
    Method("get_scheduler_base", "td_get_scheduler_base(&{recv})"),
    Method("get_priority", "td_get_priority(&{recv})"),
    Sub(r"\bauto\*\s*(\w+)\s*=\s*get_thread_id_data", r"struct thread_data *\1 = get_thread_id_data", None),
    Sub(r"\bauto\s+priority\s*=", "int priority =", None),
    # switch_status members
    Method("is_valid", "switch_status_is_valid(&{recv})"), Method("get_previous", "switch_status_get_previous(&{recv})"),
    Method("disable_restore", "switch_status_disable_restore(&{recv})"),
    Method("store_state", "switch_status_store_state(&{recv}, &{0})"),
    Method("move_next_thread", "switch_status_move_next_thread(&{recv})"),
    # SchedulingPolicy callees -> T stubs (idle_loop_count and added are passed by reference)
    Sub(r"(?:pika::)?execution::thread_schedule_hint(?:\s+const)?\s+(\w+)\s*[({]([^;]*)[)}];", r"__typeof__(hint_thread(\2)) \1 = hint_thread(\2);", None),
    Call0(r"(?:pika::)?execution::thread_schedule_hint", "hint_thread({0})"),
    Call0(SP + "wait_or_add_new", "sp_wait_or_add_new({0}, {1}, &{2}, {3}, &{4})"),
    Call0(SP + "schedule_thread_last", "sp_schedule_thread_last({0}, {1}, {2})"),
    Call0(SP + "schedule_thread", "sp_schedule_thread({0}, {1}, {2}, {3})"),
    Call0(SP + "do_some_work", "sp_do_some_work({0})"),
]
FRAG = Lift(LOOP, r"PIKA_ASSERT\(get_thread_id_data\(thrd\)->get_scheduler_base\(\) == &scheduler\);",
            fragment_end=r"thrd = thread_id_type\(\);\s*\}", rules=FRAG_RULES)
LOOP_LIFTS = dict(CTS_LIFTS, **SW_LIFTS, body=FRAG,
                  **{k: TD_LIFTS[k] for k in ("get_state_body", "set_state_body", "set_state_tagged_body", "restore_state_1_body", "restore_state_2_body")})
UNITS += [
    Unit("loop.run_one", unit_template("loop.c", []), enforce="run_one", lifts=LOOP_LIFTS, min_obligations=200,
         funcs=[LOOP + ": scheduling_loop (fragment: body of `if (thrd || get_next_thread(..))`: acquire, run, publish, requeue decision)",
                LOOP + ": switch_status::* (inlined)", TD + ": thread_data::get_state, set_state, set_state_tagged, restore_state (inlined)"],
         doc="T over S: the task body is entered at most once and only behind this worker's successful pending -> active switch of "
             "the word it read; failed switch / refused store: continue without queue operation; returned pending: "
             "schedule_thread_last(hint = this worker) once after the store; pending_boost: set_state(pending), then exactly one of "
             "{kept as next_thrd, schedule_thread(boost)}; suspended: no queue operation; terminated: reference dropped; active "
             "leftover: re-queued once, not run; on every path the reference in `thrd` is consumed exactly once"),
]


# ---------------------------------------------------------------------------------------------------------------
# U5 (slice): pending-queue hops of thread_queue
Q_RULES = [
    NS,
    Sub(r"\+\+(\w+_count_)\.data_", r"atomic_inc(self, &self->\1)", None),                 # atomic pre-increment / pre-decrement
    Sub(r"--(\w+_count_)\.data_", r"atomic_dec(self, &self->\1)", None),
    Sub(r"\b(\w+_count_)\.data_\.load\([^()]*\)", r"atomic_load_i64(self, &self->\1)", None),
    Sub(r"\b(\w+_count_)\.data_\.store\(([^;]*?)(?:,\s*std::memory_order_\w+)?\);", r"atomic_store_i64(self, &self->\1, \2);", None),
    Sub(r"\b(\w+_count_)\.data_\s*=\s*([^;=]+);", r"atomic_store_i64(self, &self->\1, \2);", None),
    Call0(r"\bwork_items_\.push", "wi_push(self, {0}, {1})"),
    Call0(r"\bwork_items_\.pop", "wi_pop(self, &{0}, {1})"),
    Members(["parameters_"], optional=["parameters_"]),
]
UNITS += [
    Unit("queue.schedule_thread", unit_template("queue.c", ["U_SCHEDULE_THREAD"]), defines=["U_SCHEDULE_THREAD"], enforce="schedule_thread",
         lifts={"schedule_thread_body": Lift(TQ, r"\bvoid schedule_thread\(threads::detail::thread_id_ref_type thrd, bool other_end = false\)",
                                             rules=Q_RULES + [Method("detach", "tid_detach(&{recv})")])},
         funcs=[TQ + ": thread_queue::schedule_thread"], min_obligations=15,
         doc="I+T: exactly one insertion into work_items_, of exactly the thread passed in, never a thread that is already queued; "
             "work_items_count_ is incremented BEFORE the insertion (counter >= entries at every instant), net +1"),
    Unit("queue.get_next_thread", unit_template("queue.c", ["U_GET_NEXT_THREAD"]), defines=["U_GET_NEXT_THREAD"], enforce="get_next_thread",
         lifts={"get_next_thread_body": Lift(TQ, r"\bbool get_next_thread\(threads::detail::thread_id_ref_type& thrd, bool allow_stealing = false,",
                                             rules=Q_RULES + [Call0(r"\bthrd\.reset", "tid_reset(thrd, {0}, {1})")])},
         funcs=[TQ + ": thread_queue::get_next_thread"], min_obligations=15,
         doc="I+T: returns true IFF it removed one entry, and hands out exactly that entry; work_items_count_ is decremented only "
             "AFTER a successful removal (counter >= entries at every instant), net -1 iff removed"),
]

META = {
    "explanation":
        "C01 is decided on the thread state word thread_data::current_state_ (schedule state, restart state, 48-bit tag in one "
        "atomic) and on the scheduling-loop iteration that runs one task. "
        "U1 cts.* (F, full domain): pack/extract/set of combined_tagged_state are mutually inverse on every enumerator pair and every "
        "48-bit tag; enumerator lists and shift/mask constants are lifted. "
        "U2 word.* (S): every member of thread_data that writes the word makes exactly the step its contract names (state as requested, "
        "tag +1 iff the state changes, state_ex only if asked; set_state_tagged true IFF the word equalled prev at its CAS). "
        "U3 sw.* (S): switch_status: is_valid() <=> this worker's CAS to active succeeded; store_state succeeds <=> the word still is this "
        "worker's and publishes (returned state, ex, tag+2 overall); the destructor restores only if valid and not stored. "
        "L1 lemma.* + other.*: every OTHER writer in the census (set_thread_state -- set_active_state writes only through it --, "
        "abort_all_suspended_threads) asserts at its CAS that it neither starts from nor creates an active word (STEP_OTHER); the "
        "runner's own set_state_ex keeps (active, tag); the lemma harnesses prove guarantee => rely, reflexivity/transitivity, 'of two "
        "switch-ins from the same (pending, e, t) at most one succeeds', 'no switch-in from a pending prev succeeds while the word is "
        "active' and 'a stale prev never succeeds after the phase'. "
        "U4 loop.run_one (T over S, real switch_status/thread_data bodies inlined): the task body is entered at most once per "
        "iteration and only behind this worker's own successful pending->active switch of the word it read; the post-phase decision is "
        "exactly one of requeue-last / set_state(pending)+{keep as next, requeue boost} / nothing (suspended) / drop (terminated); an "
        "active leftover is re-queued once and not run; failed switch or refused store: continue without queue operation; on every "
        "path the reference held in `thrd` is consumed exactly once. "
        "U5 (slice) queue.*: thread_queue::schedule_thread / get_next_thread move exactly one entry and keep work_items_count_ >= "
        "number of entries at every instant. "
        "The 'for all schedules' part of the property is NOT model checked: it follows from the per-step obligations above by the "
        "rely/guarantee argument plus the history induction of DESIGN 3.4 (paper argument; assumptions history-induction, A-SC, A-CLOSED). "
        "Two defects were found by these units on the pinned tree and have since been repaired in /repo (see known_findings): "
        "thread_data::set_state wrote a stale state_ex on CAS retry (word.set_state), and thread_queue::abort_all_suspended_threads "
        "overwrote words that were no longer suspended, including the runner's active word (other.abort_all_suspended).",
    "trusted_base": [
        "specs/C01/word.h interfere(): VX_ASSUME(RELY(old, new)) -- before every atomic access of the call under verification the "
        "environment replaces the word by any value allowed by the unit's rely: RELY_GEN (well formed, A-TAG, tags never decrease, a "
        "different schedule state means a larger tag); other.c / loop.c additionally A-REAL; sw.store_state.owner and other.runner_* use "
        "RELY_OWNER (nobody else moves an active word), which lemma.rely + the STEP_OTHER assertions of other.* justify",
        "specs/C01/word.h atomic_load / atomic_cas_strong: std::atomic<thread_state> is an indivisible word (A-SC); "
        "compare_exchange_strong has no spurious failure; named std::memory_order arguments are dropped by rule",
        "specs/C01/sw.h get_thread_id_data: thread ids are opaque tokens; only ONE thread object (the victim g_td) is modelled, another id "
        "(g_other_tid) stands for every other thread",
        "specs/C01/loop.c task_body: T stub for the coroutine call `(*thrdptr)(context_storage)`: VX_ASSUME(S_ENUM(result.first)) -- a "
        "thread function returns an enumerator of thread_schedule_state; it performs the runner's own set_state_ex(signaled) step "
        "(proved as other.runner_set_state_ex) directly on the word; it never names the running task itself as next thread",
        "specs/C01/loop.c sp_* (SchedulingPolicy::wait_or_add_new / schedule_thread_last / schedule_thread / do_some_work), "
        "td_get_scheduler_base / td_get_priority, vx_move_tid / tid_assign / tid_release (std::move empties the source id, assignment and "
        "scope exit drop the reference held): T stubs with ghost counters",
        "specs/C01/loop.c ghost_archive / set_state_after_phase: ghost-only copy of the step log before the inlined CAS loop of "
        "set_state (whose loop contract frames the whole log)",
        "specs/C01/other.c sb_schedule_thread / sb_do_some_work / vx_create_work_set_active_state / vx_throws_if / vx_ec_success / "
        "vx_yield_k / coroutine_call / tq_schedule_thread: T stubs; PIKA_THROWS_IF is a counter (throw-vs-ec is C16/C19), the message "
        "formatting and the thread_init_data of the deferred set_active_state task are dropped by rule",
        "specs/C01/queue.c q_interfere: VX_ASSUME(QRANGE && QINV) -- the other workers keep the ledger invariant counter >= entries, may "
        "remove the victim from the queue but cannot insert it while the caller holds its reference; wi_push / wi_pop: the lock-free "
        "container is a ghost count + victim membership bit (push always succeeds, pop may fail spuriously); ghost counters bounded by 10^9",
        "spec.py helper rules defined locally: EnumClass (scoped enum -> typedef + enumerators + IS_ENUMERATOR disjunction), ConstDefs, "
        "CtorLift (mem-initialiser list -> assignments), FrameLift (@IF_ASSIGNED: syntactic loop-frame inference for one identifier), "
        "Method (receiver.method(args), overloads / default arguments resolved by argument count), WrapIteration (fragment -> do { } "
        "while (0)), CensusLift (grep of write sites), unit_template (per-unit specialisation of a master template into specs/C01/gen/)",
    ],
    "assumptions": [
        "A-TAG: a thread object's tag stays at least 4 below 2^48 (rely) / 1 below at each own step: `tag() + 1` never leaves the 48-bit "
        "field. At 2^48 - 1 the increment spills into the state_ex byte (documented by unit cts.tag_wrap; pack_state's third PIKA_ASSERT "
        "tests `state` instead of `tag`, so debug builds do not notice)",
        "A-REAL: current_state_ only ever holds the five real states active / pending / suspended / terminated / pending_boost "
        "(set_thread_state's own PIKA_ASSERT_MSG(false) in the default case says so); used by other.* and loop.run_one",
        "A-LIFE: the two non-CAS writers of the census -- the thread_data constructor and rebind_base's store, which reset the tag to 0 -- "
        "run only on thread objects that no queue, map entry or worker references (creation / recycling; C12). They are not under "
        "contract here; a stale reference across recycling would break the tag argument",
        "A-CLOSED: Mut(current_state_) is the census taken by CensusLift on every run (16 lines in 8 files; a change is exit 2). Not under "
        "contract: queue_holder_thread::abort_all_suspended_threads (shared_priority_queue_scheduler; still has the check-then-set_state "
        "pattern repaired in thread_queue, and ends in `throw`)",
        "for all schedules: by rely/guarantee + the history induction of DESIGN 3.4 (paper argument) over the machine-checked per-step "
        "obligations; the lemma harnesses cover the two- and three-step instances the property sentence names",
        "restore_state(new, old) is called with an `old` that the word held earlier (precondition W_TAG(word) >= W_TAG(old); its only "
        "caller, switch_status::store_state, passes the word it wrote itself) -- without it the tag of the new word is not determined",
        "loop.run_one: one iteration, entered with a non-empty `thrd` of the victim and an empty `next_thrd`; busy_loop_count < 10^9; "
        "num_thread <= 32767 (the int16 hint); reference accounting counts moves, so a refactor that copies the id and lets the copy die "
        "would be flagged although C++ reference counting makes it harmless",
    ],
    "not_decided": [
        "that the hops COMPOSE over several words and containers (history induction, paper); liveness (a queued task is eventually run: C02)",
        "the other scheduling policies (local_queue, shared_priority, thread_queue_mc, queue_holder_*), the lock-free containers "
        "themselves (C17: contiguous_index_queue and the per-step contracts of deque.hpp; moodycamel ConcurrentQueue unverified), context switching / stacks (C12), weak-memory effects (A-SC)",
        "set_active_state (only its call of set_thread_state matters for the word), create_work / create_thread paths",
    ],
}


# ---- the remaining queue hops (thread_queue create/add_new/destroy/cleanup/recycle + scheduler wrappers), written by a
# ---- second sub-agent after seeded change C01-1 was missed ---------------------------------------------------------------
import os as _os
exec(open(_os.path.join("/verif/specs/C01", "hops_spec.py")).read())
UNITS += HOPS_UNITS
for _k in ("trusted_base", "assumptions", "not_decided"):
    META[_k] = list(META.get(_k, [])) + list(HOPS_META.get(_k, []))


# ---- thread_queue_mc / queue_holder_thread (the queues of shared_priority_queue_scheduler): third sub-agent, after seeded change
# ---- C01-4 was missed.  Two units carry a stated precondition each (observations in DESIGN.md 10.4, both latent in the pinned tree):
# ----  mc.tq.add_new: the thread map does not refuse the new id (otherwise new_tasks_count_ of the source is never decremented for
# ----                 the popped description: a counter leak on a defensive path, not a lost task)
# ----  mc.tq.create_thread: run_now requests ask for `pending` (create_thread_object rewrites pending_do_not_schedule to pending in
# ----                 the caller's data BEFORE the `== pending` test, so such a thread would be queued AND handed back; no caller
# ----                 in pika passes pending_do_not_schedule; thread_queue::create_thread latches the decision first)
exec(open("/verif/specs/C01/mc_spec.py").read())
for _u in MC_UNITS:
    if _u.name == "mc.tq.add_new":
        _u.defines = list(_u.defines) + ["MC_EXCL_MAP_REFUSAL"]
    if _u.name == "mc.tq.create_thread":
        _u.defines = list(_u.defines) + ["MC_EXCL_PENDING_ALIAS"]
UNITS += MC_UNITS
for _k in ("trusted_base", "assumptions", "not_decided"):
    META[_k] = list(META.get(_k, [])) + list(MC_META.get(_k, []))
META["assumptions"] += ["mc.tq.add_new: queue_holder_thread::add_to_thread_map does not refuse the id (MC_EXCL_MAP_REFUSAL)",
                        "mc.tq.create_thread: a run_now request does not ask for pending_do_not_schedule (MC_EXCL_PENDING_ALIAS)"]
STATIC = list(globals().get("STATIC", [])) + list(MC_STATIC)


# ---- C17 units reused (added after seeded change C01-6 was missed): work_items_ / new_tasks_ / terminated_items_ are the lock-free
# ---- back-end adapters of schedulers/lockfree_queue_backends.hpp; "push puts the element in exactly once, at the requested end" is their
# ---- C17 contract and what queue.schedule_thread's stub wi_push assumes.  Same templates, same contracts, run here as well.
_c17 = {"UNITS": [], "VX_NO_REUSE": True}
if not globals().get("VX_NO_REUSE"):     # reuse is never transitive: the other spec is loaded without ITS reuse blocks (no cycles)
    exec(compile(open("/verif/specs/C17/spec.py").read(), "/verif/specs/C17/spec.py", "exec"), _c17)
for _u in _c17["UNITS"]:
    # deque.* (added after seeded change C01-8 was missed): Michael's deque IS work_items_ of the lifo / abp policies -- a pop that does
    # not wait for a STABLE anchor loses or duplicates a queued task.  (deque.alloc.link_tags carries a C17 known finding: not re-run here)
    if (((_u.name.startswith("backends.") and not _u.name.startswith("backends.ciq.")) or _u.name.startswith("backend.")
         or (_u.name.startswith("deque.") and not _u.name.startswith("deque.alloc") and not _u.name.startswith("deque.seq")))
            and _u.kind != "bounded"):
        _u.name = "c17." + _u.name
        _u.template = "../C17/" + _u.template.replace("../C17/", "")
        UNITS.append(_u)
META["trusted_base"] = list(META.get("trusted_base", [])) + ["units c17.backends.* / c17.backend.* / c17.deque.* are the C17 units of the same name (specs/C17/backends*.c, deque*.c) with their trusted base"]



# ---- C02 units reused (added after seeded change C01-7 was missed): "never dropped" for a task that suspends needs its resume to
# ---- arrive -- a resume() issued while the target still reads `active` is carried by the helper task set_active_state, which may
# ---- abort only when the target was re-activated since (C02's contract).  Same templates, same contracts, run here as well.
_c02 = {"UNITS": [], "VX_NO_REUSE": True}
if not globals().get("VX_NO_REUSE"):     # reuse is never transitive: the other spec is loaded without ITS reuse blocks (no cycles)
    exec(compile(open("/verif/specs/C02/spec.py").read(), "/verif/specs/C02/spec.py", "exec"), _c02)
for _u in _c02["UNITS"]:
    if _u.name in ("sts.set_thread_state", "sts.set_active_state"):
        _u.name = "c02." + _u.name
        _u.template = "../C02/" + _u.template
        UNITS.append(_u)
META["trusted_base"] = list(META.get("trusted_base", [])) + ["units c02.sts.* are the C02 units of the same name (specs/C02/sts.c) with their trusted base"]


# ---- C12 unit reused (added after seeded change C01-9 was missed): the worker learns how a task phase ended from the result the coroutine
# ---- trampoline binds; a task that ran to completion must be reported `terminated` (else it is re-queued and entered again, or parked for ever)
_c12t = {"UNITS": [], "VX_NO_REUSE": True}
if not globals().get("VX_NO_REUSE"):
    exec(compile(open("/verif/specs/C12/spec.py").read(), "/verif/specs/C12/spec.py", "exec"), _c12t)
for _u in _c12t["UNITS"]:
    if _u.name == "recycle.trampoline":
        _u.name = "c12." + _u.name
        _u.template = "../C12/" + _u.template
        UNITS.append(_u)
META["trusted_base"] = list(META.get("trusted_base", [])) + ["unit c12.recycle.trampoline is the C12 unit of the same name (specs/C12/tramp.c) with its trusted base"]


# ---- C10 units reused: the pool's submission gate -- "never dropped" starts at scheduled_thread_pool::create_thread / create_work, which may
# ---- turn work away only while the pool has no worker threads (seeded change C19-7)
_c10p = {"UNITS": [], "VX_NO_REUSE": True}
if not globals().get("VX_NO_REUSE"):
    exec(compile(open("/verif/specs/C10/spec.py").read(), "/verif/specs/C10/spec.py", "exec"), _c10p)
for _u in _c10p["UNITS"]:
    if _u.name in ("pool.create_thread", "pool.create_work"):
        _u.name = "c10." + _u.name
        _u.template = "../C10/" + _u.template
        UNITS.append(_u)
META["trusted_base"] = list(META.get("trusted_base", [])) + ["units c10.pool.create_* are the C10 units of the same name (specs/C10/chain.c) with their trusted base"]
