# C19 -- additional unit: ONE ITERATION of scheduling_loop() (the complete body of its `while (true)` loop, the thread-execution
# branch cut out): WHEN a worker that was told to suspend calls scheduler.suspend(num_thread), when it leaves the loop, when it
# goes on.  Defines LOOP_UNITS / LOOP_META / LOOP_STATIC; merged into specs/C19/spec.py by the maintainer
# (`exec(open(".../loop_spec.py").read()); UNITS += LOOP_UNITS`).  Self-contained: relies only on what it imports / defines here
# (the helper rules LCall0 / LMethod are copies of Call0 / Method of specs/C19/spec.py).
import re as _re

from vx import lift as _L
from vx.lift import Lift, Sub, Call, Rule, LiftError, match_close, split_args
from vx.run import Unit
from vx import census

LP_DIR = "../C19/"       # the templates live next to this file
LP_LOOP = "libs/pika/thread_pools/include/pika/thread_pools/scheduling_loop.hpp"
LP_THROW = "libs/pika/errors/src/throw_exception.cpp"
LP_ENUMS_HPP = "libs/pika/coroutines/include/pika/coroutines/thread_enums.hpp"


class LCall0(Call):
    """Call with n=None but WITHOUT the fixed-point re-scan of vx.lift.Call (copy of specs/C19/spec.py Call0)."""

    def __init__(self, head, template, stmt=False):
        Call.__init__(self, head, template, None, stmt)

    def apply(self, text):
        self._nested = True
        return Call.apply(self, text)


class LMethod(Rule):
    """member call `RECV.name(args)` -> template with {recv}, {0}, {1}, {args} (copy of specs/C19/spec.py Method)"""

    def __init__(self, name, template, n=None):
        self.name, self.template, self.n = name, template, n

    @staticmethod
    def _recv_start(text, dot):
        i = dot
        while True:
            if i >= 1 and text[i - 1] in ")]":
                close = text[i - 1]
                open_ = "(" if close == ")" else "["
                depth, q = 0, i - 1
                while q >= 0:
                    if text[q] == close:
                        depth += 1
                    elif text[q] == open_:
                        depth -= 1
                        if depth == 0:
                            break
                    q -= 1
                if q < 0:
                    raise LiftError("LMethod: unbalanced receiver")
                i = q
                continue
            mm = _re.search(r"\w+$", text[:i])
            if mm:
                i = mm.start()
                if text[i - 2: i] in ("::", "->"):
                    i -= 2
                    continue
                if text[i - 1: i] == ".":
                    i -= 1
                    continue
            break
        return i

    def apply(self, text):
        k, scan = 0, 0
        rx = _re.compile(r"(\.|->)%s\s*\(" % self.name)
        while True:
            m = rx.search(text, scan)
            if not m:
                break
            rs = self._recv_start(text, m.start())
            recv = text[rs: m.start()].strip()
            if not recv:
                raise LiftError("LMethod(%s): empty receiver" % self.name)
            if m.group(1) == "->":
                recv = "*(%s)" % recv
            op = m.end() - 1
            cl = match_close(text, op)
            args = split_args(text[op + 1: cl])
            env = {"args": text[op + 1: cl].strip(), "recv": recv}
            rep = _re.sub(r"\{(\d+|args|recv)\}", lambda mo: args[int(mo.group(1))] if mo.group(1).isdigit() else env[mo.group(1)],
                          self.template)
            text = text[:rs] + rep + text[cl + 1:]
            scan = rs + len(rep)
            k += 1
        self.check(k, "LMethod(%s)" % self.name)
        return text


class CutThen(Rule):
    """`if (COND) { BLOCK }` whose COND contains `marker` (a regex): BLOCK -> `replacement`.  Purely structural outlining of a
    block that is not under this unit's contract; the condition itself is kept (and lifted)."""

    def __init__(self, marker, replacement, n=1):
        self.marker, self.replacement, self.n = marker, replacement, n

    def apply(self, text):
        k, scan = 0, 0
        rx = _re.compile(r"\bif\s*\(")
        while True:
            m = rx.search(text, scan)
            if not m:
                break
            op = m.end() - 1
            cl = match_close(text, op)
            scan = m.end()
            if not _re.search(self.marker, text[op + 1: cl]):
                continue
            j = cl + 1
            while text[j].isspace():
                j += 1
            if text[j] != "{":
                raise LiftError("CutThen(%s): the branch is not a block" % self.marker)
            bc = match_close(text, j, "{", "}")
            text = text[:j] + self.replacement + text[bc + 1:]
            scan = j + len(self.replacement)
            k += 1
        self.check(k, "CutThen(%s)" % self.marker)
        return text


class OuterLoopBody(Lift):
    """the body `{...}` of the only loop that is a direct child statement of a function's body ("one iteration" as a fragment
    unit).  The loop must be an endless one (`while (true)` / `for (;;)`, which PRE_RULES spell `while (1)`): its condition
    carries no logic, so the body IS the iteration.  Free variables of the body are declared by the template (anything forgotten
    is an undeclared identifier for the C compiler)."""

    def run(self):
        body, line, header = _L.locate(self.src, self.locate, self.which, self.expect, self.ctor)
        body = _L.resolve_pp(body)
        body = _L.apply_rules(body, _L.PRE_RULES)
        found, depth, i, n = [], 0, 0, len(body)
        while i < n:
            c = body[i]
            if c == '"' or (c == "'" and not (i > 0 and body[i - 1].isalnum())):
                i = _L._skip_literal(body, i)
                continue
            if c == "{":
                depth += 1
            elif c == "}":
                depth -= 1
            elif depth == 1:
                m = _re.match(r"\b(for|while|do)\b", body[i:]) if (i == 0 or not (body[i - 1].isalnum() or body[i - 1] == "_")) else None
                if m:
                    found.append((i, m.group(1)))
                    i += m.end()
                    continue
            i += 1
        if len(found) != 1:
            raise LiftError("OuterLoopBody: %d top-level loops in the function (expected exactly 1)" % len(found))
        pos, kw = found[0]
        m = _re.match(r"while\s*\(\s*1\s*\)\s*", body[pos:])
        if not m:
            raise LiftError("OuterLoopBody: the loop is not an endless `while (true)` / `for (;;)` loop")
        a = pos + m.end()
        if body[a] != "{":
            raise LiftError("OuterLoopBody: loop without block body")
        b = match_close(body, a, "{", "}")
        frag = body[a: b + 1]
        line += body.count("\n", 0, a)
        text = _L.apply_rules(frag, self.rules)
        text = _L.apply_rules(text, _L.GENERIC_RULES)
        text = _L.apply_rules(text, self.post)
        text = _L.apply_rules(text, _L.FALLBACK_RULES)
        text, nloops = _L.splice_loops(text, self.loops)
        return {"text": text, "line": line, "file": self.src, "raw": frag, "nloops": nloops, "header": header}


class BeforeOuterLoop(OuterLoopBody):
    """the statements of a function's body in front of its single top-level loop (as a block)"""

    def run(self):
        body, line, header = _L.locate(self.src, self.locate, self.which, self.expect, self.ctor)
        body = _L.resolve_pp(body)
        body = _L.apply_rules(body, _L.PRE_RULES)
        ms = [m for m in _re.finditer(r"\b(for|while|do)\b", body) if body.count("{", 0, m.start()) - body.count("}", 0, m.start()) == 1]
        if len(ms) != 1:
            raise LiftError("BeforeOuterLoop: %d top-level loops in the function (expected exactly 1)" % len(ms))
        frag = body[: ms[0].start()].rstrip() + "\n}"
        text = _L.apply_rules(frag, self.rules)
        text = _L.apply_rules(text, _L.GENERIC_RULES)
        text = _L.apply_rules(text, self.post)
        text = _L.apply_rules(text, _L.FALLBACK_RULES)
        if _re.search(r"\b(for|while|do)\b", text):
            raise LiftError("BeforeOuterLoop: loop in the prologue")
        return {"text": text, "line": line, "file": self.src, "raw": frag, "nloops": 0, "header": header}


def _lp_cleanup(args, env):   # overload by arity: cleanup_terminated(delete_all) / cleanup_terminated(num_thread, delete_all)
    return "sp_cleanup_terminated_all(%s)" % args[0] if len(args) == 1 else "sp_cleanup_terminated(%s, %s)" % (args[0], args[1])


LP_SP = r"scheduler\.SchedulingPolicy::"
# purely syntactic: C++ spelling -> C spelling, callee -> stub (all operands captured, none matched literally)
LP_RULES = [
    # a `return;` of scheduling_loop() (there is none today) leaves the loop just as `break` does
    Sub(r"\breturn\s*;", "{ g_broke = true; VX_RETURN; }", None),
    # the block that executes the thread that was found is not under this contract (its text is looked at by no other rule than the `return;` one)
    CutThen(LP_SP + r"get_next_thread\b", "{ vx_found_thread(); return; }", 1),
    Sub(r"(?:::)?(?:pika::)?(?:threads::)?scheduler_mode::(\w+)", r"scheduler_mode_\1", None),
    Sub(r"(?:pika::)?runtime_state::(\w+)", r"runtime_state_\1", None),
    Sub(r"\bthread_schedule_state::(\w+)", r"thread_schedule_state_\1", None),
    Sub(r"\bexecution::thread_priority::default_\b", "thread_priority_default", None),
    LCall0(LP_SP + "get_next_thread", "sp_get_next_thread({0}, {1}, &{2}, {3})"),          # thrd: by reference
    LCall0(LP_SP + "has_scheduler_mode", "sp_has_scheduler_mode({0})"),
    LCall0(LP_SP + "wait_or_add_new", "sp_wait_or_add_new({0}, {1}, &{2}, {3}, &{4})"),    # idle_loop_count, added: by reference
    LCall0(LP_SP + "cleanup_terminated", _lp_cleanup),
    LCall0(LP_SP + "get_queue_length", "sp_get_queue_length({0})"),
    LCall0(LP_SP + "get_thread_count", "sp_get_thread_count({0}, {1}, {2})"),
    LCall0(LP_SP + "suspend", "sp_suspend({0})"),
    Sub(r"\bparams\.(inner|outer)_\.empty\(\)", r"\1_empty()", None),
    Sub(r"\bparams\.(inner|outer)_\(\)", r"\1_call()", None),
    Sub(r"\bparams\.(max_\w+?)_\b", r"params_\1", None),
    Sub(r"\bpika::execution::this_thread::detail::get_agent_storage\(\)", "get_agent_storage()", None),
    Sub(r"\bscheduler\.custom_polling_function\(\)\s*==\s*pika::threads::detail::polling_status::busy", "custom_polling_busy()", None),
    Sub(r"\bthis_state\b", "(*vx_ref_this_state)", None),                                   # reference local of the enclosing function
    LMethod("load", "atomic_load(&{recv})"),
    LMethod("store", "atomic_store(&{recv}, {0})"),
    # `break` of the scheduling loop inside its own body = the loop is left
    Sub(r"\bbreak\s*;", "{ g_broke = true; return; }", None),
    # `continue` of the scheduling loop inside its own body = this iteration ends, the loop goes on
    Sub(r"\bcontinue\s*;", "{ return; }", None),
    Sub(r"\bVX_RETURN\b", "return", None),
]

# the declarations in front of the loop: locals that live across iterations are the template's globals (declaration ->
# assignment); timing instrumentation objects are dropped
LP_PROLOGUE_RULES = [
    Sub(r"std::atomic<(?:pika::)?runtime_state>\s*&\s*this_state\s*=\s*scheduler\.get_state\(([^()]*)\);", r"vx_ref_this_state = sched_get_state(\1);", 1),
    Sub(r"std::int64_t\s*&\s*(\w+)\s*=\s*counters\.(\w+)\s*;", r"VX_ALIAS(\1, counters_\2);", None),
    Sub(r"\b(?:idle_collect_rate|tfunc_time_wrapper)\s+\w+\s*\([^;]*\);", "", None),
    Sub(r"\bthread_id_ref_type\s+(\w+)\s*;", r"\1 = 0;", None),                          # default-constructed: empty
    Sub(r"\bstd::size_t\((-?\w+)\)", r"((size_t)(\1))", None),
    Sub(r"\bpika::execution::this_thread::detail::get_agent_storage\(\)", "get_agent_storage()", None),
    Sub(r"(?:\bbool|\bstd::size_t|\b[\w:]+\s*\*)\s+(may_exit|added|context_storage)\s*=", r"\1 =", None),
    # any access to the word in front of the loop (there is none today) is an access like those of the loop body
    Sub(r"(?:pika::)?runtime_state::(\w+)", r"runtime_state_\1", None),
    Sub(r"\bthis_state\b(?!\s*=\s*scheduler)", "(*vx_ref_this_state)", None),
    LMethod("load", "atomic_load(&{recv})"),
    LMethod("store", "atomic_store(&{recv}, {0})"),
]

LP_THROWS_IF = Lift(LP_THROW, r"void throws_if\(", rules=[
    Sub(r"&ec\b", "ec", "+"),
    Sub(r"&pika::throws\b", "&vx_throws", "+"),
    Sub(r"(?<![\w&*.>])ec(?=\s*=[^=])", "*ec", "+"),
    Call(r"pika::detail::throw_exception", "vx_throw_exception({0})", "+"),
    Call(r"\bmake_error_code", "make_error_code({0})", "+"),
    Sub(r"\bpika::error\b(?!::)", "pika_error", None)])

LOOP_UNITS = [
    Unit("loop.prologue", LP_DIR + "loop_iter.c", defines=["U_PROLOGUE"], enforce="loop_prologue",
         lifts={"throws_if": LP_THROWS_IF,
                "prologue": BeforeOuterLoop(LP_LOOP, r"void scheduling_loop\(std::size_t num_thread,", rules=LP_PROLOGUE_RULES)},
         funcs=[LP_LOOP + ": scheduling_loop (the statements in front of its `while (true)` loop)"],
         min_obligations=8,
         doc="base case of loop.iteration: this_state is bound to get_state(num_thread) -- the word of the worker that runs the loop "
             "--, nothing is written, may_exit starts false (J2), no thread is carried into the first iteration"),
    Unit("loop.iteration", LP_DIR + "loop_iter.c", defines=["U_ITERATION"], enforce="loop_iteration",
         lifts={"throws_if": LP_THROWS_IF,
                "body": OuterLoopBody(LP_LOOP, r"void scheduling_loop\(std::size_t num_thread,", rules=LP_RULES)},
         funcs=[LP_LOOP + ": scheduling_loop (the complete body of its `while (true)` loop = one iteration; the block that executes a "
                          "thread that was found is cut out)"],
         min_obligations=40,
         doc="T/S (worker, one iteration): suspend(num_thread) at most once, for itself, only with the word last seen pre_sleep, no "
             "thread found, wait_or_add_new 'nothing added', terminated list cleaned, own queue length 0; CONVERSELY with the word "
             "pre_sleep at the start, no stop request before the decision and every scheduler answer 'nothing runnable' it DOES call "
             "suspend in this iteration, whatever the number of suspended (blocked) threads; the loop is left only by the final step "
             "stopping|terminating -> stopped made with fresh evidence (clean-up complete, NO suspended threads, queue empty: the "
             "shutdown path does wait for blocked tasks) followed by break, or on a terminate request; after a sleep the worker goes "
             "on unless its word says stopping / terminating; otherwise J1 (awake word) / J2 (may_exit => stopping|terminating) are "
             "handed to the next iteration"),
]

LOOP_STATIC = [
    census.sites("scheduling_loop: SchedulingPolicy::suspend call sites", [LP_LOOP], r"SchedulingPolicy::suspend\s*\(", 1,
                 "530 (idle branch, under loop.iteration): the thread-execution branch that loop.iteration cuts out contains no suspend call"),
    census.enum("thread_schedule_state values", LP_ENUMS_HPP, "thread_schedule_state", {"suspended": 3}),
    census.enum("thread_priority values", LP_ENUMS_HPP, "thread_priority", {"default_": 0}),
]

LOOP_META = {
    "trusted_base": [
        "specs/C19/loop_spec.py OuterLoopBody (the body of the single top-level endless loop of scheduling_loop() is lifted as the "
        "function under contract = one iteration; its free variables -- idle_loop_count, busy_loop_count, may_exit, added, next_thrd, "
        "context_storage, this_state -- are the function's locals that live across iterations, declared in loop_iter.c) and CutThen "
        "(the then-block of `if (thrd || get_next_thread(...))`, i.e. the execution of a thread that was found, is replaced by "
        "`{ vx_found_thread(); return; }`: iterations that found a thread are NOT decided beyond the branch; census facts: that "
        "block contains no suspend call); `break` / `return;` -> flag + return, `continue;` -> return",
        "specs/C19/loop_iter.c sp_suspend: CONTRACT stub of scheduler_base::suspend as proved by state.sched_suspend - VX_ASSUME(n == "
        "running || n == stopping || n == terminating) for the word at return; what the worker knew about its queues before the "
        "sleep is marked stale",
        "specs/C19/loop_iter.c sp_get_queue_length / sp_get_thread_count: VX_ASSUME(r >= 0) - queue lengths and thread counts are "
        "non-negative; sp_get_next_thread / sp_wait_or_add_new / sp_cleanup_terminated (both overloads) / sp_has_scheduler_mode / "
        "inner and outer callbacks / get_agent_storage / custom polling: T stubs with arbitrary answers (fresh at every call); "
        "thread_id_ref_type is observed only through its emptiness",
        "specs/C19/state.h interfere() with RELY_AWAKE (more_rel.h): between two accesses of the worker to its own word requesters "
        "may step running -> pre_sleep and raisers x -> stopping | terminating",
    ],
    "assumptions": [
        "loop.iteration: the loop invariant J1 /\\ J2 holds when the iteration starts (base case: word `running` after thread_func's "
        "start-up step -- more.thread_func_startup --, `bool may_exit = false` at scheduling_loop.hpp:275; the cut thread-execution "
        "branch only assigns may_exit = false -- census `scheduling_loop may_exit writes`)",
        "loop.iteration: idle_loop_count < 2^63 - 1 at `++idle_loop_count` (it is reset whenever it exceeds max_idle_loop_count_)",
        "loop.iteration: no stop / terminate request hits the word between the loop's look at it (pre_sleep) and suspend()'s store "
        "(observation O1, assumption of state.sched_suspend); the stub sp_suspend is entered without interference",
    ],
    "not_decided": [
        "iterations of scheduling_loop that found a thread (the thread-execution branch is cut out of loop.iteration)",
        "whether `running == false` must hold for a worker that goes to sleep (an implementation detail of the schedulers' "
        "get_next_thread / wait_or_add_new; loop.sleep_decision pins what the code does)",
        "how soon a worker that was told to stop leaves the loop (more.loop_tail states the code's behaviour; C19 does not)",
    ],
}
