/* C19 (mutator closure) -- additions to state.h for the life-cycle writers of the per-worker word.
 * Included AFTER the unit has defined GUAR / RELY / STEP_HOOK (see state.h) -- same victim abstraction, same word model.
 */
#ifndef C19_MORE_STATE_H
#define C19_MORE_STATE_H
static bool g_after_step;               /* the victim word was accessed again after an own step (set by READ_HOOK users) */
static bool g_exchanged;                /* an exchange on the victim word has been executed by the call under verification */
#include "state.h"

static long g_stutters;                 /* own writes that left the victim word unchanged (saturating at 2) */

/* std::atomic<runtime_state>::exchange: indivisible read-modify-write.  A write of the value the word already holds is
 * a stutter (no transition); anything else is a step and must be an edge this party is entitled to. */
static runtime_state_t atomic_exchange(runtime_state_t *p, runtime_state_t v)
{
  interfere(p);
  runtime_state_t o = *p;
  if (p == &g_v_state)
  {
    vx_seen(o);
    if (o != v) vx_step(o, v);
    else if (g_stutters < 2) g_stutters++;
    g_exchanged = true;
  }
  *p = v;
  return o;
}

/* compare_exchange_weak: atomic_cas_weak of state.h */

/* ---- std::thread threads_[i] (environment stubs; joinable() is thread_joinable of state.h) ---- */
static long g_spawned_v, g_spawned_o;   /* std::thread objects started for worker g_v / for other workers (saturating at 2) */
static size_t g_spawn_thread_num;       /* the global thread number handed to thread_func of worker g_v */
static runtime_state_t g_state_at_spawn;/* the victim word at the moment its worker thread was started */
#ifndef SPAWN_HOOK
#define SPAWN_HOOK(i) do { } while (0)
#endif
/* threads_[i] = std::thread(&scheduled_thread_pool::thread_func, this, i, thread_num, startup) */
static void thread_spawn(struct pool *p, size_t i, size_t thread_num)
{
  VX_ASSERT(i < p->threads_size, "threads_[i]: index within the vector");
  SPAWN_HOOK(i);
  if (i == g_v)
  {
    VX_ASSERT(g_v_pu_mtx.held == 1, "a worker thread is started only under the PU mutex");
    VX_ASSERT(!g_v_joinable, "std::thread move assignment onto a joinable thread calls std::terminate");
    g_state_at_spawn = g_v_state;
    g_spawn_thread_num = thread_num;
    g_v_joinable = true;
    if (g_spawned_v < 2) g_spawned_v++;
  }
  else if (g_spawned_o < 2) g_spawned_o++;
}
/* std::thread t; std::swap(threads_[i], t): the worker's thread object is moved out of the vector */
static long g_taken_v, g_taken_o;
static bool g_t_is_victim;              /* the local `t` holds the thread of worker g_v */
static void thread_take(struct pool *p, size_t i)
{
  VX_ASSERT(i < p->threads_size, "threads_[i]: index within the vector");
  if (i == g_v)
  {
    VX_ASSERT(g_v_pu_mtx.held == 1, "threads_[i] is modified only under the PU mutex");
    VX_ASSERT(g_v_joinable, "the thread taken out for joining is a live (joinable) one");
    g_v_joinable = false;
    g_t_is_victim = true;
    if (g_taken_v < 2) g_taken_v++;
  }
  else if (g_taken_o < 2) g_taken_o++;
}
/* t.join(): blocks until the worker's thread_func has returned */
static long g_joins;
#ifndef JOIN_HOOK
#define JOIN_HOOK() do { } while (0)
#endif
static void thread_join_taken(void)
{
  VX_ASSERT(NO_LOCKS_HELD, "join with a PU mutex held: the worker (or a requester) may need it - deadlock");
  JOIN_HOOK();
  if (g_joins < 2) g_joins++;
}
#endif
