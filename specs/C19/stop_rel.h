/* C19 (stop hand-shake) -- relations used by the stop.* units.  Macros only; expanded lazily (S_*, VALID from state.h).
 *
 * RELY_QUIET: what everybody except the stopper may do to ONE worker's word while stop_locked runs, under assumption
 * A-STOP-QUIET (no suspension request in flight or issued during stop):
 *   the worker itself   sleeping -> running (it was notified), stopping | terminating -> stopped (its final step)
 *   other raisers       x -> stopping, x -> terminating (x below), e.g. report_error of a worker that died
 * NOT in it: running -> pre_sleep (a requester), pre_sleep -> sleeping (the worker obeying a requester), anything from
 * `initialized` / `stopped` (no worker is started or re-added during stop).  stop.lemma_quiet proves: reflexive, transitive,
 * inside RELY_LIVE, contains the guarantees of the parties listed above, disjoint from the requesters' guarantee, and
 * `sleeping` / `pre_sleep` are not reachable from an awake word.
 */
#ifndef C19_STOP_REL_H
#define C19_STOP_REL_H
#define UP(s) ((s) == S_RUN || (s) == S_SLEEP)
#define RELY_QUIET(o, n) ((n) == (o) || ((o) == S_SLEEP && (n) == S_RUN) || \
                          (UP(o) && ((n) == S_STOPPING || (n) == S_TERM || (n) == S_STOPPED)) || \
                          ((o) == S_STOPPING && ((n) == S_TERM || (n) == S_STOPPED)) || ((o) == S_TERM && (n) == S_STOPPED))
#endif
