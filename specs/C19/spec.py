import re

from vx.lift import Lift, Sub, Call, Members, Guard, DropStmt, Rule, LiftError, match_close, split_args
from vx.run import Unit

IMPL = "libs/pika/thread_pools/include/pika/thread_pools/scheduled_thread_pool_impl.hpp"
SB_CPP = "libs/pika/threading_base/src/scheduler_base.cpp"
SB_HPP = "libs/pika/threading_base/include/pika/threading_base/scheduler_base.hpp"
LOOP = "libs/pika/thread_pools/include/pika/thread_pools/scheduling_loop.hpp"
THROW = "libs/pika/errors/src/throw_exception.cpp"



class Call0(Call):
    """Call with n=None ("any number of times") but WITHOUT the fixed-point re-scan of vx.lift.Call: needed when the
    replacement text contains the head again (callee -> same-named stub)."""

    def __init__(self, head, template, stmt=False):
        Call.__init__(self, head, template, None, stmt)

    def apply(self, text):
        self._nested = True
        return Call.apply(self, text)


class YieldWhile(Rule):
    """`util::yield_while([caps]() { BODY }, "name");`  ->  the loop it is (this_thread.hpp: `for (k = 0; predicate(); ++k)
    yield_k(k)`), with the lambda body inlined:
        for (;;) { bool vx_ywK; { BODY' } vx_ywK_end: ; if (!vx_ywK) break; vx_yield(); }
    where every `return E;` of BODY becomes `{ vx_ywK = (E); goto vx_ywK_end; }`.  Purely structural; the loop is visible
    to the loop census (ordinal = textual position) and can carry a loop contract."""

    def __init__(self, n=None):
        self.n = n

    def apply(self, text):
        k = 0
        rx = re.compile(r"(?:pika::)?util::yield_while\s*\(")
        while True:
            m = rx.search(text)
            if not m:
                break
            op = m.end() - 1
            cl = match_close(text, op)
            lam = split_args(text[op + 1 : cl])[0]
            ml = re.match(r"\[[^\]]*\]\s*\(\s*\)\s*(?:mutable\s*)?\{", lam, re.S)
            if not ml:
                raise LiftError("YieldWhile: first argument is not a lambda: %r" % lam[:60])
            bop = ml.end() - 1
            bcl = match_close(lam, bop, "{", "}")
            if lam[bcl + 1 :].strip():
                raise LiftError("YieldWhile: text after the lambda body")
            k += 1
            v = "vx_yw%d" % k
            body, nret = re.subn(r"\breturn\b\s*([^;]*);", lambda mm: "{ %s = (%s); goto %s_end; }" % (v, mm.group(1), v),
                                 lam[bop + 1 : bcl])
            if nret == 0:
                raise LiftError("YieldWhile: predicate without return")
            end = cl + 1
            ms = re.match(r"\s*;", text[end:])
            if not ms:
                raise LiftError("YieldWhile: not a statement")
            end += ms.end()
            rep = "while (1) { bool %s; { %s } %s_end: ; if (!%s) break; vx_yield(); }" % (v, body, v, v)
            text = text[: m.start()] + rep + text[end:]
        self.check(k, "YieldWhile")
        return text


class RefVar(Rule):
    """C++ reference local `T& x = E;` -> `CT *vx_ref_x = &(E);`, every later use of x inside the enclosing block ->
    `(*vx_ref_x)`."""

    def __init__(self, type_pat, ctype, n=None):
        self.type_pat, self.ctype, self.n = type_pat, ctype, n

    def apply(self, text):
        from vx.lift import _blocks
        k = 0
        rx = re.compile(r"(?:%s)\s*(?:const\s*)?&\s*(\w+)\s*=\s*([^;]+);" % self.type_pat, re.S)
        while True:
            m = rx.search(text)
            if not m:
                break
            k += 1
            name, expr = m.group(1), m.group(2).strip()
            encl = [b for b in _blocks(text) if b[0] < m.start() and b[1] > m.start()]
            stop = max(encl, key=lambda b: b[0])[1] if encl else len(text)
            tail = re.sub(r"(?<![\w.>])%s\b" % re.escape(name), "(*vx_ref_%s)" % name, text[m.end() : stop])
            text = text[: m.start()] + "%s *vx_ref_%s = &(%s);" % (self.ctype, name, expr) + tail + text[stop:]
        self.check(k, "RefVar(%s)" % self.type_pat)
        return text


class RangeFor(Rule):
    """`for (T& x : c) {` -> `for (size_t vx_itK = 0; vx_itK != c.size(); ++vx_itK) { T& x = c[vx_itK];`"""

    def __init__(self, n=None):
        self.n = n

    def apply(self, text):
        k = [0]

        def rep(m):
            k[0] += 1
            it = "vx_it%d" % k[0]
            return "for (size_t %s = 0; %s != %s.size(); ++%s) { %s& %s = %s[%s];" % (
                it, it, m.group(3), it, m.group(1).strip(), m.group(2), m.group(3), it)

        text = re.sub(r"\bfor\s*\(\s*([\w:<> ]+?)\s*&\s*(\w+)\s*:\s*(\w+)\s*\)\s*\{", rep, text)
        self.check(k[0], "RangeFor")
        return text


class Method(Rule):
    """member call `RECV.name(args)` -> template with {recv}, {0}, {1}, {args}; RECV is found by scanning backwards over
    identifiers, `::`, `.`, `->` and balanced (...) / [...] groups."""

    def __init__(self, name, template, n=None):
        self.name, self.template, self.n = name, template, n

    @staticmethod
    def _recv_start(text, dot):
        i = dot
        while True:
            if i >= 1 and text[i - 1] in ")]":
                close = text[i - 1]
                open_ = "(" if close == ")" else "["
                depth, q = 0, i - 1
                while q >= 0:
                    if text[q] == close:
                        depth += 1
                    elif text[q] == open_:
                        depth -= 1
                        if depth == 0:
                            break
                    q -= 1
                if q < 0:
                    raise LiftError("Method: unbalanced receiver")
                i = q
                continue
            mm = re.search(r"\w+$", text[:i])
            if mm:
                i = mm.start()
                if text[i - 2 : i] in ("::", "->"):
                    i -= 2
                    continue
                if text[i - 1 : i] == ".":
                    i -= 1
                    continue
            break
        return i

    def apply(self, text):
        k, scan = 0, 0
        rx = re.compile(r"(\.|->)%s\s*\(" % self.name)
        while True:
            m = rx.search(text, scan)
            if not m:
                break
            rs = self._recv_start(text, m.start())
            recv = text[rs : m.start()].strip()
            if not recv:
                raise LiftError("Method(%s): empty receiver" % self.name)
            if m.group(1) == "->":
                recv = "*(%s)" % recv
            op = m.end() - 1
            cl = match_close(text, op)
            args = split_args(text[op + 1 : cl])
            env = {"args": text[op + 1 : cl].strip(), "recv": recv}
            rep = re.sub(r"\{(\d+|args|recv)\}", lambda mo: args[int(mo.group(1))] if mo.group(1).isdigit() else env[mo.group(1)],
                         self.template)
            text = text[:rs] + rep + text[cl + 1 :]
            scan = rs + len(rep)
            k += 1
        self.check(k, "Method(%s)" % self.name)
        return text


# ---- spelling rules shared by all units (purely syntactic: C++ spelling -> C spelling, callee -> stub) -------------
ENUMS = [
    Sub(r"(?:::)?(?:pika::)?(?:threads::)?scheduler_mode::(\w+)", r"scheduler_mode_\1", None),
    Sub(r"(?:pika::)?runtime_state::(\w+)", r"runtime_state_\1", None),
    Sub(r"(?:pika::)?error::(\w+)", r"pika_error_\1", None),
]
# PIKA_THROWS_IF(ec, code, f, msg...): either throws (ec is pika::throws) or sets ec and CONTINUES.  The decision is made
# by the lifted pika::detail::throws_if; the exceptional edge is lowered to `if (vx_exc) return;` (the functions here have
# no try/catch; RAII guards are lowered afterwards, so their destructors run on that edge too).
THROWS_IF = Call0(r"\bPIKA_THROWS_IF", "{ vx_throws_if({0}, {1}); if (vx_exc) return; }", stmt=True)
THIS = Sub(r"\bthis\b(?!->)", "self", None)
CALLER = [
    Sub(r"(?:pika::)?threads::detail::get_self_ptr\(\)", "get_self_ptr()", None),
    Sub(r"pika::this_thread::get_pool\(\)", "this_thread_get_pool()", None),
    Call0(r"get_scheduler\(\)->has_scheduler_mode", "has_scheduler_mode(get_scheduler(self), {0})"),
]


def maythrow(name, nargs):
    """member call `[this->]name(a, b);` -> `{ name(self, a, b); if (vx_exc) return; }` (callee may throw)"""
    args = ", ".join("{%d}" % i for i in range(nargs))
    return Call0(r"(?<![\w:>.])(?:this->)?%s" % name, "{ %s(self, %s); if (vx_exc) return; }" % (name, args), stmt=True)


HELPERS = {
    # void throws_if(error_code& ec, error errcode, msg, func, file, line): reference -> pointer, callee -> stub
    "throws_if": Lift(THROW, r"void throws_if\(", rules=[
        Sub(r"&ec\b", "ec", "+"),
        Sub(r"&pika::throws\b", "&vx_throws", "+"),
        Sub(r"(?<![\w&*.>])ec(?=\s*=[^=])", "*ec", "+"),
        Call(r"pika::detail::throw_exception", "vx_throw_exception({0})", "+"),
        Call(r"\bmake_error_code", "make_error_code({0})", "+"),
        Sub(r"\bpika::error\b(?!::)", "pika_error", None)]),
    "has_scheduler_mode": Lift(SB_HPP, r"bool has_scheduler_mode\(scheduler_mode mode\) const", rules=[
        Sub(r"\bmode_\.data_\.load\([^()]*\)", "atomic_load_mode(&self->mode_)", 1),
        Sub(r"\bscheduler_mode\{\}", "0", 1)]),
}

UNITS = [
    Unit("refuse.suspend_pu_direct", "refuse.c", defines=["U_SUSPEND_PU_DIRECT"], enforce="suspend_processing_unit_direct",
         lifts=dict(HELPERS, body=Lift(IMPL, r"void scheduled_thread_pool<Scheduler>::suspend_processing_unit_direct\(", rules=ENUMS + CALLER + [
             THROWS_IF, maythrow("suspend_processing_unit_internal", 2), THIS])),
         funcs=[IMPL + ": scheduled_thread_pool::suspend_processing_unit_direct", THROW + ": pika::detail::throws_if",
                SB_HPP + ": scheduler_base::has_scheduler_mode"], min_obligations=15,
         doc="T: a request reported as unsupported (no elasticity / own PU without stealing) takes no suspension step, for "
             "ec == throws and for a real error_code; otherwise suspend_processing_unit_internal(virt_core, ec) exactly once"),
    Unit("refuse.suspend_direct", "refuse.c", defines=["U_SUSPEND_DIRECT"], enforce="suspend_direct",
         lifts=dict(HELPERS, body=Lift(IMPL, r"void scheduled_thread_pool<Scheduler>::suspend_direct\(", rules=ENUMS + CALLER[:2] + [
             THROWS_IF, maythrow("suspend_internal", 1), THIS])),
         funcs=[IMPL + ": scheduled_thread_pool::suspend_direct", THROW + ": pika::detail::throws_if"], min_obligations=12,
         doc="T: a pool suspending itself is refused and takes no step; otherwise suspend_internal(ec) exactly once"),
    Unit("refuse.resume_direct", "refuse.c", defines=["U_RESUME_DIRECT"], enforce="resume_direct",
         lifts=dict(HELPERS, body=Lift(IMPL, r"void scheduled_thread_pool<Scheduler>::resume_direct\(", rules=[
             maythrow("resume_internal", 2)])),
         funcs=[IMPL + ": scheduled_thread_pool::resume_direct"], min_obligations=8,
         doc="T: resume_internal(blocking = true, ec) exactly once, nothing refused"),
]

# ---- group 2: steps on the per-worker state word -------------------------------------------------------------------
SIZE_T = Sub(r"\bstd::size_t\((-?\w+)\)", r"((size_t)(\1))", None)
LOCK_DEFER = Guard(r"std::unique_lock<[^;]*?>\s*(\w+)\(\s*([^;]*?),\s*std::defer_lock\);", r"struct ulock \1 = ulock_defer(&(\2));",
                   r"ulock_dtor(&\1);", None)
LOCK_MAKE = Guard(r"std::unique_lock<[^;]*?>\s*(\w+)\(\s*([^;,]*?)\);", r"struct ulock \1 = ulock_make(&(\2));",
                  r"ulock_dtor(&\1);", None)
ATOMICS = [
    RefVar(r"std::atomic<pika::runtime_state>|state_type", "runtime_state_t"),
    Sub(r"\bpika::runtime_state\s+(\w+)\s*=", r"runtime_state_t \1 =", None),
    Method("load", "atomic_load(&{recv})"),
    Method("store", "atomic_store(&{recv}, {0})"),
    Method("compare_exchange_strong", "atomic_cas_strong(&{recv}, &{0}, {1})"),
    Method("compare_exchange_weak", "atomic_cas_weak(&{recv}, &{0}, {1})"),
]
# member functions of scheduled_thread_pool<Scheduler>
POOL = ENUMS + [
    SIZE_T,
    YieldWhile(None),
    Call0(r"(?:this->)?sched_->Scheduler::get_pu_mutex", "(*get_pu_mutex(self->sched_, {0}))"),
    Call0(r"(?:this->)?sched_->Scheduler::get_state", "(*get_state(self->sched_, {0}))"),
    Call0(r"(?:this->)?sched_->Scheduler::resume", "sched_resume(self->sched_, {0})"),
    Call0(r"(?:this->)?sched_->Scheduler::get_thread_count", "sched_get_thread_count(self->sched_)"),
    Sub(r"\bthreads_\.size\(\)", "self->threads_size", None),
    Sub(r"\bthreads_\[([^\]]+)\]\.joinable\(\)", r"thread_joinable(self, \1)", None),
    THROWS_IF,
    Sub(r"(?<![\w:.>&])(?:pika::)?throws\b", "(&vx_throws)", None),   # the sentinel passed by reference
    LOCK_DEFER,
    Method("try_lock", "ulock_try_lock(&{recv})"),
    Method("unlock", "ulock_unlock(&{recv})"),
] + ATOMICS
# member functions of scheduler_base
ACCESSOR = [Sub(r"\b(?:states_|pu_mtxs_|suspend_mtxs_|suspend_conds_)\.size\(\)", "self->n", None),
            Sub(r"\breturn\s+([^;]+);", r"return &(\1);", 1),
            Sub(r"\bstates_\[([^\]]+)\]", r"(*vx_state(self, \1))", None),
            Sub(r"\bpu_mtxs_\[([^\]]+)\]", r"(*vx_pu_mtx(self, \1))", None)]
STATE_HELPERS = {
    "throws_if": HELPERS["throws_if"],
    "has_scheduler_mode": HELPERS["has_scheduler_mode"],
    "get_state": Lift(SB_CPP, r"std::atomic<pika::runtime_state>& scheduler_base::get_state\(std::size_t num_thread\)(?=\s*\{)", rules=ACCESSOR),
    "get_pu_mutex": Lift(SB_HPP, r"pu_mutex_type& get_pu_mutex\(std::size_t num_thread\)", rules=ACCESSOR),
}

LOOP_TRYLOCK = """
__CPROVER_assigns(l.owns, g_v_pu_mtx, g_o_pu_mtx, g_v_joinable, g_yields)
__CPROVER_loop_invariant(!l.owns && g_v_pu_mtx.held == 0 && g_o_pu_mtx.held == 0 && g_yields >= 0 && g_yields <= 2)
"""
SPU_WAIT = """
__CPROVER_assigns(g_v_state, g_o_state, g_last_read, g_reads, g_interfered, g_yields)
__CPROVER_loop_invariant(VALID(g_v_state) && g_reads >= 0 && g_reads <= 2)
"""
# a CAS retry loop around the running -> pre_sleep step (not in the pinned tree; an edit may introduce one): every failed attempt leaves
# the word untouched and the loop may only ever try the step FROM `running`
SPU_CAS_LOOP = """
__CPROVER_assigns(expected, g_v_state, g_o_state, lin_count, lin_old, lin_new, lin_first_old, lin_first_new, g_last_read, g_reads, g_interfered)
__CPROVER_loop_invariant(VALID(g_v_state) && IN_CYCLE(g_v_state) && g_reads >= 0 && g_reads <= 2 && lin_count == 0 && expected == runtime_state_running)
"""
SPU_LOOPS = {"by_pattern": [(r"while \(1\)\s*\{ bool vx_yw\d+;[^\n]*ulock_try_lock", LOOP_TRYLOCK, True),
                            (r"while \(1\)\s*\{ bool vx_yw\d+;[^\n]*atomic_load", SPU_WAIT, True),
                            (r"(?:while|do|for)\b[^\n]*(?:\n[^\n]*){0,3}?atomic_cas_(?:weak|strong)", SPU_CAS_LOOP, False)]}
RPU_WAIT = """
__CPROVER_assigns(g_v_state, g_o_state, g_last_read, g_reads, g_interfered, g_yields, g_resume_calls_v, g_resume_calls_o, g_resumes_since_read)
__CPROVER_loop_invariant(VALID(g_v_state) && g_reads >= 0 && g_reads <= 2 && g_resume_calls_v >= 0 && g_resume_calls_v <= 2 && g_resume_calls_o >= 0 && g_resume_calls_o <= 2)
__CPROVER_loop_invariant(g_resumes_since_read == 0 && (virt_core == g_v || g_resume_calls_v == 0) && (virt_core != g_v || g_resume_calls_o == 0))
__CPROVER_loop_invariant(g_reads >= 1 ==> g_resume_calls_v >= 1)
"""

UNITS += [
    Unit("state.suspend_pu_internal", "state.c", defines=["U_SPU_INTERNAL"], enforce="suspend_processing_unit_internal",
         lifts=dict(STATE_HELPERS, body=Lift(IMPL, r"void scheduled_thread_pool<Scheduler>::suspend_processing_unit_internal\(",
                                             rules=POOL, loops=SPU_LOOPS)),
         funcs=[IMPL + ": scheduled_thread_pool::suspend_processing_unit_internal", SB_CPP + ": scheduler_base::get_state",
                SB_HPP + ": scheduler_base::get_pu_mutex"], min_obligations=60,
         doc="S/M: the only step is running -> pre_sleep on the addressed worker, under its PU mutex, for a joinable worker; a "
             "stopped worker is refused without a step; returns after the worker left pre_sleep"),
    Unit("state.resume_pu_direct", "state.c", defines=["U_RPU_DIRECT"], enforce="resume_processing_unit_direct",
         lifts=dict(STATE_HELPERS, body=Lift(IMPL, r"void scheduled_thread_pool<Scheduler>::resume_processing_unit_direct\(",
                                             rules=POOL, loops={1: LOOP_TRYLOCK, 2: RPU_WAIT, "count": 2})),
         funcs=[IMPL + ": scheduled_thread_pool::resume_processing_unit_direct"], min_obligations=60,
         doc="T/S: a stopped worker is refused and nobody is notified; otherwise only the addressed worker is notified, before "
             "every check of its word, until the word is not `sleeping`; no state word is written"),
]

SI_L1 = """
__CPROVER_assigns(g_yields)
__CPROVER_loop_invariant(g_yields >= 0 && g_yields <= 2)
"""
SI_L2 = """
__CPROVER_assigns(i, g_v_state, g_o_state, lin_count, lin_old, lin_new, lin_first_old, lin_first_new, g_last_read, g_reads, g_interfered)
__CPROVER_loop_invariant(i <= self->threads_size && IN_CYCLE(g_v_state) && g_reads >= 0 && g_reads <= 2 && lin_count >= 0 && lin_count <= 1)
__CPROVER_loop_invariant(i <= g_v ==> lin_count == 0)
__CPROVER_loop_invariant(lin_count == 1 ==> (lin_old == S_RUN && lin_new == S_PRE && g_v < self->threads_size))
"""
SI_L3 = """
__CPROVER_assigns(i, g_callee_calls_v, g_callee_calls_o, g_callee_ec, g_refusals, vx_exc, g_thrown_code, vx_ec_obj)
__CPROVER_loop_invariant(i <= self->threads_size && !vx_exc && g_refusals >= 0 && g_refusals <= 2 && g_callee_calls_o >= 0 && g_callee_calls_o <= 2)
__CPROVER_loop_invariant(g_callee_calls_v == ((i > g_v) ? 1 : 0) && (g_callee_calls_v >= 1 ==> g_callee_ec == ec))
"""
RI_L1 = """
__CPROVER_assigns(virt_core, g_resume_calls_v, g_resume_calls_o, g_resumes_since_read)
__CPROVER_loop_invariant(virt_core <= self->threads_size && g_resume_calls_v >= 0 && g_resume_calls_v <= 2 && g_resume_calls_o >= 0 && g_resume_calls_o <= 2)
__CPROVER_loop_invariant(virt_core > g_v ? g_resume_calls_v >= 1 : g_resume_calls_v == 0)
"""
RI_L2 = """
__CPROVER_assigns(virt_core, g_callee_calls_v, g_callee_calls_o, g_callee_ec, g_refusals, vx_exc, g_thrown_code, vx_ec_obj, g_v_joinable, g_join_seen)
__CPROVER_loop_invariant(virt_core <= self->threads_size && !vx_exc && g_refusals >= 0 && g_refusals <= 2 && g_callee_calls_o >= 0 && g_callee_calls_o <= 2)
__CPROVER_loop_invariant(g_callee_calls_v == ((virt_core > g_v && g_join_seen) ? 1 : 0) && (g_callee_calls_v >= 1 ==> g_callee_ec == ec))
__CPROVER_loop_invariant(virt_core <= g_v ==> !g_join_seen)
"""
UNITS += [
    Unit("state.suspend_internal", "state.c", defines=["U_SUSPEND_INTERNAL"], enforce="suspend_internal",
         lifts=dict(STATE_HELPERS, body=Lift(IMPL, r"void scheduled_thread_pool<Scheduler>::suspend_internal\(",
                                             rules=POOL + [maythrow("suspend_processing_unit_internal", 2)],
                                             loops={1: SI_L1, 2: SI_L2, 3: SI_L3, "count": 3})),
         funcs=[IMPL + ": scheduled_thread_pool::suspend_internal"], min_obligations=60,
         doc="S/T: the only own step on a worker's word is running -> pre_sleep (at most once per worker); then "
             "suspend_processing_unit_internal(i, ec) exactly once for every worker of the pool"),
    Unit("state.resume_internal", "state.c", defines=["U_RESUME_INTERNAL"], enforce="resume_internal",
         lifts=dict(STATE_HELPERS, body=Lift(IMPL, r"void scheduled_thread_pool<Scheduler>::resume_internal\(",
                                             rules=POOL + [maythrow("resume_processing_unit_direct", 2)],
                                             loops={1: RI_L1, 2: RI_L2, "count": 2})),
         funcs=[IMPL + ": scheduled_thread_pool::resume_internal"], min_obligations=60,
         doc="T: no state word written; every worker of the pool is notified; if blocking, resume_processing_unit_direct(i, ec) "
             "exactly once for every worker seen joinable"),
]

# member functions of scheduler_base
CMP = r"(<=|>=|==|!=|<|>)(?!=)"
SCHED = ENUMS + [
    SIZE_T,
    Sub(r"\busing\s+\w+\s*=[^;]+;", "", None),
    RangeFor(None),
    LOCK_MAKE,
    Sub(r"\b(?:states_|pu_mtxs_|suspend_mtxs_|suspend_conds_)\.size\(\)", "self->n", None),
    Sub(r"\bstates_\[([^\]]+)\]\s*" + CMP, r"atomic_load(vx_state(self, \1)) \2", None),   # implicit conversion = load
    Sub(r"\bstates_\[([^\]]+)\]", r"(*vx_state(self, \1))", None),
    Sub(r"\bpu_mtxs_\[([^\]]+)\]", r"(*vx_pu_mtx(self, \1))", None),
    Sub(r"\bsuspend_mtxs_\[([^\]]+)\]", r"(*vx_susp_mtx(self, \1))", None),
    Sub(r"\bsuspend_conds_\[([^\]]+)\]", r"(*vx_cond(self, \1))", None),
    RefVar(r"std::condition_variable", "struct vx_cv"),
    Method("wait", "cv_wait(&{recv}, &{0})"),
    Method("notify_one", "cv_notify_one(&{recv})"),
] + ATOMICS + [
    Sub(r"\(\*vx_ref_(\w+)\)\s*" + CMP, r"atomic_load(vx_ref_\1) \2", None),                   # implicit conversion = load
]
LOOP_RESUME_ALL = """
__CPROVER_assigns(vx_it1, g_v_notifies, g_o_notifies)
__CPROVER_loop_invariant(vx_it1 <= self->n && g_v_notifies >= 0 && g_v_notifies <= 2 && (vx_it1 > g_v ? g_v_notifies >= 1 : g_v_notifies == 0) && g_o_notifies >= 0 && g_o_notifies <= 2)
"""
LOOP_SET_ALL = """
__CPROVER_assigns(vx_it1, g_v_state, g_o_state, lin_count, lin_old, lin_new, lin_first_old, lin_first_new, g_interfered)
__CPROVER_loop_invariant(vx_it1 <= self->n && lin_count >= 0 && lin_count <= 3 && (vx_it1 > g_v ? (lin_count >= 1 && lin_new == s) : lin_count == 0))
__CPROVER_loop_invariant(g_v_state == S_INIT || g_v_state == S_RUN)
"""
LOOP_AT_LEAST = """
__CPROVER_assigns(vx_it1, g_v_state, g_o_state, lin_count, lin_old, lin_new, lin_first_old, lin_first_new, g_interfered, g_last_read, g_reads)
__CPROVER_loop_invariant(vx_it1 <= self->n && VALID(g_v_state) && g_reads >= 0 && g_reads <= 2 && lin_count >= 0 && lin_count <= 1)
__CPROVER_loop_invariant(vx_it1 <= g_v ==> (lin_count == 0 && g_reads == 0))
__CPROVER_loop_invariant(vx_it1 > g_v ==> (g_reads >= 1 && (lin_count == 1 ? (lin_new == s && lin_old < s) : g_last_read >= s)))
"""

UNITS += [
    Unit("state.sched_suspend", "state.c", defines=["U_SCHED_SUSPEND"], enforce="sched_suspend",
         lifts=dict(STATE_HELPERS, body=Lift(SB_CPP, r"void scheduler_base::suspend\(std::size_t num_thread\)", rules=SCHED)),
         funcs=[SB_CPP + ": scheduler_base::suspend"], min_obligations=40,
         doc="S: the worker publishes pre_sleep -> sleeping before it blocks on its own cv/mutex; after waking it steps "
             "sleeping -> running only from sleeping (stopping / terminating are left untouched)"),
    Unit("state.sched_resume", "state.c", defines=["U_SCHED_RESUME"], enforce="sched_resume_fn",
         lifts=dict(STATE_HELPERS, body=Lift(SB_CPP, r"void scheduler_base::resume\(std::size_t num_thread\)", rules=SCHED,
                                             loops={1: LOOP_RESUME_ALL, "count": 1})),
         funcs=[SB_CPP + ": scheduler_base::resume"], min_obligations=40,
         doc="T: no state word is read or written; exactly the addressed worker's cv is notified once (every cv for -1)"),
    Unit("state.set_all_states", "state.c", defines=["U_SET_ALL"], enforce="set_all_states",
         lifts=dict(STATE_HELPERS, body=Lift(SB_CPP, r"void scheduler_base::set_all_states\(pika::runtime_state s\)", rules=SCHED,
                                             loops={1: LOOP_SET_ALL, "count": 1})),
         funcs=[SB_CPP + ": scheduler_base::set_all_states"], min_obligations=40,
         doc="S: every worker's word is stored exactly once with s, by an edge of the transition graph (start-up call site)"),
    Unit("state.set_all_states_at_least", "state.c", defines=["U_SET_AT_LEAST"], enforce="set_all_states_at_least",
         lifts=dict(STATE_HELPERS, body=Lift(SB_CPP, r"void scheduler_base::set_all_states_at_least\(pika::runtime_state s\)", rules=SCHED,
                                             loops={1: LOOP_AT_LEAST, "count": 1})),
         funcs=[SB_CPP + ": scheduler_base::set_all_states_at_least"], min_obligations=40,
         doc="S: a word is only raised (to stopping / terminating), at most once, by an edge of the graph; otherwise it was seen >= s"),
]

SEL_RULES = ENUMS + [
    SIZE_T,
    YieldWhile(None),
    Call0(r"(?<![\w>.:])has_scheduler_mode", "has_scheduler_mode(self, {0})"),
    Sub(r"\bauto\s+(\w+)\s*=\s*runtime_state_", r"runtime_state_t \1 = runtime_state_", None),
    Sub(r"(?<![\w.>&])l(?=\s*(?:=[^=]|\.))", "(*l)", "+"),                                         # reference parameter
    Sub(r"\(\*l\)\s*=\s*std::unique_lock<[^>;]*>\(([^;]*?),\s*std::try_to_lock\);", r"ulock_assign(&(*l), ulock_try(&(\1)));", None),
    Method("owns_lock", "({recv}).owns"),
    Method("unlock", "ulock_unlock(&{recv})"),
    Sub(r"\(([^()]+)\)\s*%\s*(\w+)", r"vx_mod(\1, \2)", None),
    Sub(r"\b(?:states_|pu_mtxs_)\.size\(\)", "self->n", None),
    # the tolerance bookkeeping of the non-fallback search (specs/C19/state.c): round start, comparison with the tolerance, escalation
    Sub(r"(\bsize_t\s+num_allowed_threads\s*=\s*0\s*;)", r"\1 vx_round_begin();", None),
    Sub(r"\bstates_\[([^\]]+)\]\s*<=\s*max_allowed_state\b", r"vx_within_tolerance(self, \1, max_allowed_state, &(*l))", None),
    Sub(r"\bmax_allowed_state\s*=\s*runtime_state_(sleeping|stopping)\s*;", r"{ vx_escalate(); max_allowed_state = runtime_state_\1; }", None),
    Sub(r"\bstates_\[([^\]]+)\]\s*" + CMP, r"atomic_load(vx_state_sel(self, \1)) \2", None),      # implicit conversion = load
    Sub(r"\bstates_\[([^\]]+)\]", r"(*vx_state_sel(self, \1))", None),
    Sub(r"\bpu_mtxs_\[([^\]]+)\]", r"(*vx_visit(self, \1))", None),
] + ATOMICS
SEL_COMMON = ("lin_count == 0 && VALID(g_v_state) && g_reads >= 0 && g_reads <= 2 && states_size == self->n && "
              "(l->m == MTX_NONE || l->m == MTX_PU_V || l->m == MTX_PU_O)")
SEL_L1 = """
__CPROVER_assigns(num_thread, max_allowed_state, l->m, l->owns, g_v_pu_mtx, g_o_pu_mtx, g_v_joinable, g_v_state, g_o_state, g_last_read, g_reads, g_interfered, g_yields, SEL_GHOSTS)
__CPROVER_loop_invariant(%s && !l->owns && g_v_pu_mtx.held == 0 && g_o_pu_mtx.held == 0 && num_thread < self->n && g_yields >= 0 && g_yields <= 2)
__CPROVER_loop_invariant(max_allowed_state == runtime_state_suspended || max_allowed_state == runtime_state_sleeping || max_allowed_state == runtime_state_stopping)
""" % SEL_COMMON
SEL_L2 = """
__CPROVER_assigns(offset, num_allowed_threads, vx_yw1, num_thread, l->m, l->owns, g_v_pu_mtx, g_o_pu_mtx, g_v_joinable, g_v_state, g_o_state, g_last_read, g_reads, g_interfered, SEL_GHOSTS)
__CPROVER_loop_invariant(%s && !l->owns && g_v_pu_mtx.held == 0 && g_o_pu_mtx.held == 0 && num_thread < self->n)
__CPROVER_loop_invariant(offset <= states_size && num_allowed_threads <= offset)
__CPROVER_loop_invariant(g_in_round && !g_v_pending && (g_v_round_allowed ==> num_allowed_threads >= 1))
""" % SEL_COMMON
SEL_L3 = """
__CPROVER_assigns(offset, l->m, l->owns, g_v_pu_mtx, g_o_pu_mtx, g_v_joinable, g_v_state, g_o_state, g_last_read, g_reads, g_interfered)
__CPROVER_loop_invariant(%s && offset <= states_size && (l->owns ==> l->m != MTX_NONE) && LOCKS_MATCH(l))
""" % SEL_COMMON
UNITS += [
    Unit("state.select_active_pu", "state.c", defines=["U_SELECT_PU"], enforce="select_active_pu",
         lifts=dict(STATE_HELPERS, body=Lift(SB_CPP, r"std::size_t scheduler_base::select_active_pu\(", rules=SEL_RULES,
                                             loops={1: SEL_L1, 2: SEL_L2, 3: SEL_L3, "count": 3})),
         funcs=[SB_CPP + ": scheduler_base::select_active_pu", SB_HPP + ": scheduler_base::has_scheduler_mode"], min_obligations=80,
         doc="returns an index < states_.size(); with fallback: the original, or a worker whose PU mutex l now holds and whose "
             "word was seen <= suspended under that mutex; no state word written; only the mutex owned by l is held at return"),
]

# ---- group 3: the sleep decision of the scheduling loop (fragment) ----------------------------------------------------
SP = r"scheduler\.SchedulingPolicy::"
LOOP_RULES = ENUMS + [
    Call0(SP + "wait_or_add_new", "sp_wait_or_add_new({0}, {1}, &{2}, {3}, &{4})"),   # idle_loop_count, added: by reference
    Call0(SP + "cleanup_terminated", "sp_cleanup_terminated({0}, {1})"),
    Call0(SP + "get_queue_length", "sp_get_queue_length({0})"),
    Call0(SP + "get_thread_count", "sp_get_thread_count({2})"),
    Call0(SP + "suspend", "sp_suspend({0})"),
    Sub(r"\bthis_state\b", "(*vx_ref_this_state)", None),                              # reference local of the enclosing function
    Method("load", "atomic_load(&{recv})"),
    Method("store", "atomic_store(&{recv}, {0})"),
]
UNITS += [
    Unit("loop.sleep_decision", "loop.c", enforce="sleep_decision",
         lifts={"throws_if": HELPERS["throws_if"],
                "body": Lift(LOOP, r"if \(\s*scheduler\.SchedulingPolicy::wait_or_add_new\(",
                             fragment_end=r"\}(?=\s*if \(!params\.inner_\.empty\(\)\))", rules=LOOP_RULES)},
         funcs=[LOOP + ": scheduling_loop (fragment: `if (wait_or_add_new(...)) { can_exit ...; pre_sleep branch; may_exit branch }`)"],
         min_obligations=20,
         doc="T: the worker calls suspend(num_thread) at most once, and only if it is not running, cleanup_terminated(num_thread, "
             "true) succeeded, get_queue_length(num_thread) == 0 and its word was seen in pre_sleep; conversely it does so "
             "whenever all of these hold"),
]

UNITS += [
    Unit("lemma.rely_guarantee", "lemma.c", kind="lemma", min_obligations=10,
         doc="side conditions of the rely/guarantee argument: guarantees are graph edges, each class's guarantee is inside the "
             "rely of the classes concurrent with it, relies are reflexive and transitive (full int8 domain)"),
]

META = {
    "explanation":
        "C19 is decided per worker: ONE symbolic worker g_v (the victim) is modelled precisely (its runtime_state word, PU mutex, "
        "suspend mutex/cv, std::thread), every other worker is abstract (arbitrary reads, dropped writes); g_v is arbitrary, so "
        "per-worker obligations hold for every worker, with vectors of unbounded symbolic length. Units: refuse.* (T: a "
        "request reported as unsupported takes no step), state.* (S/M/T: every function that touches a worker's word makes "
        "only its allowed steps, under the stated order predicates), loop.sleep_decision (T: the worker sleeps only if "
        "can_exit), lemma.rely_guarantee (side conditions of the rely/guarantee argument). "
        "EXPECTED FAILURE on the pinned tree: refuse.suspend_pu_direct (defect D6: no `return` after PIKA_THROWS_IF in "
        "scheduled_thread_pool::suspend_processing_unit_direct, so with a non-throwing error_code the refused suspension is "
        "carried out); specs/C19/mutfix.sh NONE NONE NONE shows the unit proves with the two `return;` added.",
    "trusted_base": [
        "specs/C19/c19.h vx_throw_exception / `if (vx_exc) return;`: a C++ throw is lowered to a flag plus an immediate return at "
        "every may-throw call site (PIKA_THROWS_IF and the *_internal / *_direct callees), inserted BEFORE RAII lowering so that "
        "unique_lock destructors run on that edge; the functions under contract contain no try/catch. The throw-or-set-ec "
        "decision itself is the lifted pika::detail::throws_if",
        "specs/C19/c19.h get_self_ptr / this_thread_get_pool / scheduler mode word: the caller's identity and the scheduler "
        "mode are arbitrary but stable during one call",
        "specs/C19/refuse.c suspend_processing_unit_internal / suspend_internal / resume_internal and specs/C19/state.c "
        "vx_callee (suspend_processing_unit_internal / resume_processing_unit_direct as callees), sched_resume, "
        "sched_get_thread_count: T stubs (count, record arguments, assert order predicates, may refuse / throw); the real "
        "bodies are units of their own",
        "specs/C19/state.h victim abstraction: worker g_v precise, every other worker abstract (interfere(): VX_ASSUME(OTHER_VALID(n)) "
        "- another worker's word holds some value a per-worker word can hold)",
        "specs/C19/state.h interfere(): VX_ASSUME(VALID(n) && RELY(old, n)) - between two accesses of the call under "
        "verification the environment moves the victim's word by the unit's rely (reflexive, transitive: lemma.rely_guarantee); "
        "std::atomic<runtime_state> load / store / compare_exchange_strong are indivisible (A-SC)",
        "specs/C19/state.h std::mutex / std::unique_lock model (try_lock may fail arbitrarily; a try_lock on a mutex the thread "
        "already owns fails instead of being UB; acquiring pu_mtxs_[g_v] havocs threads_[g_v].joinable(), which is stable while "
        "the mutex is held), std::thread::joinable(), std::condition_variable (wait releases and re-acquires the lock and may "
        "return spuriously; notify_one is a counter)",
        "specs/C19/state.c vx_mod: VX_ASSUME(r < n) - `a % n` is abstracted to 'a if a < n, else some value below n' (sound "
        "over-approximation that avoids a symbolic 64-bit division; modulo by zero is an obligation)",
        "specs/C19/loop.c sp_get_queue_length / sp_get_thread_count: VX_ASSUME(r >= 0) - queue lengths and thread counts are "
        "non-negative; sp_wait_or_add_new / sp_cleanup_terminated / sp_suspend: T stubs of the SchedulingPolicy",
        "spec.py rules YieldWhile (util::yield_while(lambda) -> the loop `for (k = 0; pred(); ++k) yield_k(k)` with the lambda "
        "body inlined), RefVar (C++ reference local -> pointer), RangeFor (range-for -> index loop), Method (receiver.method(args) "
        "-> stub(&receiver, args)): structural lowerings defined in specs/C19/spec.py",
    ],
    "assumptions": [
        "the scheduler mode and the identity of the calling task's pool do not change during one suspend/resume call",
        "requester-side units (suspend_processing_unit_internal, suspend_internal, resume_*): the addressed workers are up and are "
        "not started / stopped / terminated concurrently - their words stay on the cycle running / pre_sleep / sleeping "
        "(RELY_CYCLE); this is what the PIKA_ASSERT on `expected` in suspend_processing_unit_internal demands of the caller",
        "worker-side unit (scheduler_base::suspend): a stop / terminate request does not hit the worker's word between the "
        "scheduling loop's pre_sleep check and the unconditional store of `sleeping` (with such a request in the rely the store "
        "overwrites `stopping`: observation O1 of the report); stop / terminate of a worker that is already sleeping IS in the rely",
        "set_all_states is verified for its only call site (thread_manager::run: running, on initialized words); "
        "set_all_states_at_least for s in {stopping, terminating} with no second lifecycle writer racing between its load and its store",
        "scheduler invariants taken as preconditions: states_, pu_mtxs_, suspend_mtxs_, suspend_conds_ have the same length n "
        "(constructor), threads_.size() <= n, processing-unit arguments < n (PIKA_ASSERT of get_pu_mutex / get_state / suspend / resume: "
        "caller's duty), select_active_pu is called with num_thread < n",
    ],
    "not_decided": [
        "that work submitted concurrently with the hand-shake is eventually run (liveness, composition with stealing and with "
        "submitters that enqueue between the queue-empty check and the sleep)",
        "std::condition_variable / std::mutex / std::thread behaviour (environment stubs)",
        "wait_or_add_new / cleanup_terminated / get_queue_length of the concrete schedulers (T stubs in loop.sleep_decision)",
        "add_processing_unit / remove_processing_unit / thread_func / stop_locked steps on the word (not C19 units)",
    ],
}


# ---- the remaining writers of the per-worker state word (second sub-agent): census closure ---------------------------------
exec(open("/verif/specs/C19/more_spec.py").read())
UNITS += MORE_UNITS
for _k in ("trusted_base", "assumptions", "not_decided"):
    META[_k] = list(META.get(_k, [])) + list(MORE_META.get(_k, []))
META["census"] = MORE_META.get("census")
STATIC = list(globals().get("STATIC", [])) + list(MORE_STATIC)


# ---- stop hand-shake, idle back-off, thread_func handlers (third sub-agent).  `stop.suspend_block` ("an unbounded cv wait is entered
# ---- only while the word is still `sleeping`") is NOT run: it fails on the pinned tree (scheduler_base::suspend stores `sleeping`
# ---- and then blocks without re-checking, so a stop request that arrives in between is slept through and join() hangs) but what it
# ---- demands is liveness of stop(), which C19 does not state: recorded as an observation in DESIGN.md 10.4 ---------------------
exec(open("/verif/specs/C19/stop_spec.py").read())
UNITS += [_u for _u in STOP_UNITS if _u.name != "stop.suspend_block"]
for _k in ("trusted_base", "assumptions", "not_decided"):
    META[_k] = list(META.get(_k, [])) + list(STOP_META.get(_k, []))
STATIC = list(globals().get("STATIC", [])) + list(STOP_STATIC)


# ---- one iteration of the scheduling loop's idle path (when does a worker told to suspend actually suspend; when may it leave):
# ---- fourth sub-agent, written after seeded change C19-4 was missed -------------------------------------------------------------
exec(open("/verif/specs/C19/loop_spec.py").read())
UNITS += LOOP_UNITS
for _k in ("trusted_base", "assumptions", "not_decided"):
    META[_k] = list(META.get(_k, [])) + list(LOOP_META.get(_k, []))
STATIC = list(globals().get("STATIC", [])) + list(LOOP_STATIC)


# ---- C10 units reused (added by main after seeded change C19-5 was missed): a task handed to a pool with elasticity is put on the
# ---- queue of the worker select_active_pu chose WHILE the PU mutex handed back by select_active_pu is still held -- that mutex is
# ---- what suspend_processing_unit_internal needs for running -> pre_sleep, so the chosen worker cannot fall asleep in between.
_c10 = {"UNITS": [], "VX_NO_REUSE": True}
if not globals().get("VX_NO_REUSE"):     # reuse is never transitive: the other spec is loaded without ITS reuse blocks (no cycles)
    exec(compile(open("/verif/specs/C10/spec.py").read(), "/verif/specs/C10/spec.py", "exec"), _c10)
for _u in _c10["UNITS"]:
    # pool.create_thread / pool.create_work (added after seeded change C19-7 was missed): the submission gate of the pool --
    # work handed to a pool while some of its workers are suspended is accepted (postcondition 'refused => no worker threads')
    # steal.lpq.wait_or_add_new (added after seeded change C19-8 was missed): a worker that was told to suspend still converts the tasks
    # staged on its OWN queues (postcondition "one of its own queues is polled in every call, whatever `running` says")
    if _u.name in ("lpq.create_thread", "lpq.schedule_thread", "lpq.schedule_thread_last", "pool.create_thread", "pool.create_work",
                   "steal.lpq.wait_or_add_new"):
        _u.name = "c10." + _u.name
        _u.template = "../C10/" + _u.template
        UNITS.append(_u)
META["trusted_base"] = list(META.get("trusted_base", [])) + [
    "units c10.lpq.* are the C10 units of the same name (specs/C10/queues.c: the unique_lock as an owns flag, select_active_pu as the "
    "contract proved by state.select_active_pu) with their trusted base",
    "units c10.pool.create_thread / c10.pool.create_work are the C10 units of the same name (specs/C10/chain.c)"]
META["not_decided"] = list(META.get("not_decided", [])) + [
    "the same 'lock kept until the task is queued' obligation for local_queue_scheduler and shared_priority_queue_scheduler "
    "(their placement units model the unique_lock as an int)"]


# ---- C02 units reused (added after seeded change C19-9 was missed): a task woken while its home worker is suspended is re-queued by
# ---- set_thread_state -> schedule_thread(.., allow_fallback = false, ..): only then does select_active_pu move it to an awake worker
_c02s = {"UNITS": [], "VX_NO_REUSE": True}
if not globals().get("VX_NO_REUSE"):
    exec(compile(open("/verif/specs/C02/spec.py").read(), "/verif/specs/C02/spec.py", "exec"), _c02s)
for _u in _c02s["UNITS"]:
    if _u.name in ("sts.set_thread_state", "sts.set_active_state"):
        _u.name = "c02." + _u.name
        _u.template = "../C02/" + _u.template
        UNITS.append(_u)
META["trusted_base"] = list(META.get("trusted_base", [])) + ["units c02.sts.* are the C02 units of the same name (specs/C02/sts.c, c02.h) with their trusted base"]
