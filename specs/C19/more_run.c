/* C19 (mutator closure) -- the start-up call sites: scheduled_thread_pool::run (fragment: the loop that starts the
 * workers and the start-up barrier) and thread_manager::run (set_all_states(running) per pool).  T contracts: which
 * writer of the per-worker word is called, how often, in which order, with which arguments.
 */
#include "c19.h"
#include "more_rel.h"
#define GUAR(o, n) (0)                  /* neither function writes a word itself */
#define RELY(o, n) (VALID(n))
#define STEP_HOOK(o, n) do { } while (0)
#include "more_state.h"
static void throws_if(struct error_code *ec, pika_error errcode)
//@LIFT throws_if

#ifdef U_POOL_RUN
/* ---- scheduled_thread_pool::run, fragment `for (; thread_num != pool_threads; ++thread_num) { ... add_processing_unit_internal(...) }
 *      startup->wait(); PIKA_ASSERT(pool_threads == thread_count_)` ---- */
static size_t g_thread_offset;
static size_t g_thread_count;           /* thread_count_ (each worker increments it before it arrives at the barrier) */
static size_t g_added;                  /* successful add_processing_unit_internal calls so far */
static long g_add_calls_v;              /* calls for virtual core g_v (saturating at 2) */
static size_t g_add_tnum_v;             /* the global thread number handed over for g_v */
static long g_barrier_waits;
static bool g_add_order_ok;
/* add_processing_unit_internal (unit more.add_pu_internal): starts the worker of virt_core; may throw (std::thread) */
static void add_processing_unit_internal(struct pool *self, size_t virt_core, size_t thread_num)
{
  VX_ASSERT(!vx_exc, "no call while an exception is in flight");
  VX_ASSERT(g_barrier_waits == 0, "workers are started before run() arrives at the start-up barrier");
  VX_ASSERT(virt_core == g_added, "workers are started in order 0, 1, 2, ... (one call per virtual core)");
  if (nondet_bool()) { vx_throw_exception(pika_error_bad_parameter); return; }
  if (virt_core == g_v) { if (g_add_calls_v < 2) g_add_calls_v++; g_add_tnum_v = thread_num; }
  g_added++;
}
/* the start-up barrier (pool_threads + 1 parties).  Contract used here (environment; its worker side is the unit
 * more.thread_func_startup: every started worker increments thread_count_ and publishes `running` BEFORE it arrives):
 * when wait() returns, every started worker has arrived */
static size_t g_barrier_parties;
static void barrier_wait(void)
{
  VX_ASSERT(g_added + 1 == g_barrier_parties, "run() arrives at the barrier after it has started pool_threads workers (else the barrier never opens)");
  if (g_barrier_waits < 2) g_barrier_waits++;
  size_t c = nondet_size();
  VX_ASSUME(c == g_added); /* all started workers have arrived, each has done ++thread_count_ (more.thread_func_startup) */
  g_thread_count = c;
}
static size_t thread_count_load(void) { return g_thread_count; }

//@FUNC
void pool_run_startup(struct pool *self, size_t thread_num, size_t pool_threads)
__CPROVER_requires(self == vx_pool && thread_num == 0 && g_added == 0 && g_add_calls_v == 0 && g_barrier_waits == 0 && !vx_exc && \
                   g_barrier_parties == pool_threads + 1 && pool_threads < (size_t) 1 << 40 && g_thread_offset < (size_t) 1 << 40 && g_thread_count == 0)
/* every virtual core below pool_threads gets exactly one add_processing_unit_internal(core, thread_offset_ + core, startup),
 * no other core gets one; then run() waits at the barrier exactly once: it goes on only after every worker has left
 * `initialized` (published `running`) */
__CPROVER_ensures(!vx_exc ==> (g_added == pool_threads && g_barrier_waits == 1 && g_add_calls_v == (g_v < pool_threads ? 1 : 0)))
__CPROVER_ensures(g_add_calls_v >= 1 ==> g_add_tnum_v == g_thread_offset + g_v)
/* an exception from a callee leaves the fragment (to run()'s handler) without waiting at the barrier here */
__CPROVER_ensures(vx_exc ==> (g_barrier_waits == 0 && g_added < pool_threads))
__CPROVER_assigns(g_added, g_add_calls_v, g_add_tnum_v, g_barrier_waits, g_thread_count, vx_exc, g_thrown_code)
{
//@LIFT body
}
#endif

#ifdef U_TM_RUN
/* ---- thread_manager::run ---- one symbolic pool g_vp is tracked precisely, the others are abstract */
struct tmlock { bool owns; };
static struct tmlock tm_lock_make(void) { struct tmlock l; l.owns = true; return l; }
static long g_unlocks;
static void tm_lock_dtor(struct tmlock *l) { if (l->owns) { l->owns = false; if (g_unlocks < 2) g_unlocks++; } }
static size_t g_npools, g_vp;
static size_t pools_size(void) { return g_npools; }
static long g_run_calls_v, g_set_calls_v, g_tss_calls;
static bool g_run_result_v, g_run_failed, g_seen_running;
static runtime_state_t g_set_arg_v;
static struct scheduler vx_sched_v, vx_sched_o;
static size_t rp_get_num_threads_all(void) { return nondet_size(); }
static size_t rp_get_num_threads(size_t pool) { return nondet_size(); }
static void init_tss(size_t n) { if (g_tss_calls < 2) g_tss_calls++; }
static size_t pool_get_pool_name(size_t pool) { return pool; }
static size_t pool_get_os_thread_count(size_t pool) { VX_ASSERT(pool < g_npools, "pools_[i]"); return nondet_bool() ? 0 : 1; }
static bool pool_has_reached_state(size_t pool, runtime_state_t s)
{
  bool r = nondet_bool();
  return r;
}
/* scheduled_thread_pool::run (units more.pool_run_startup, more.add_pu_internal, more.thread_func_startup): true = every
 * worker of the pool has been started and has passed the start-up barrier */
static bool pool_run(size_t pool, struct tmlock l, size_t num_threads)
{
  VX_ASSERT(pool < g_npools, "pools_[i]");
  VX_ASSERT(l.owns, "pool->run is called with the thread manager's lock owned");
  VX_ASSERT(!g_run_failed, "no pool is started after another one failed to start");
  bool r = nondet_bool();
  if (pool == g_vp) { if (g_run_calls_v < 2) g_run_calls_v++; g_run_result_v = r; }
  if (!r) g_run_failed = true;
  return r;
}
static struct scheduler *pool_get_scheduler(size_t pool) { return nondet_bool() ? NULL : (pool == g_vp ? &vx_sched_v : &vx_sched_o); }
/* scheduler_base::set_all_states (unit more.set_all_states_startup) */
static void sched_set_all_states(struct scheduler *s, runtime_state_t st)
{
  VX_ASSERT(s != NULL, "set_all_states on a null scheduler");
  if (s == &vx_sched_v)
  {
    VX_ASSERT(g_run_calls_v == 1 && g_run_result_v, "set_all_states is called for a pool only after its run() has returned true (all workers up)");
    if (g_set_calls_v < 2) g_set_calls_v++;
    g_set_arg_v = st;
  }
}
#define TM_LOOP_INV (vx_it1 <= g_npools && !g_run_failed && g_unlocks == 0 && g_run_calls_v == ((vx_it1 > g_vp) ? 1 : 0) && \
                     g_set_calls_v >= 0 && g_set_calls_v <= g_run_calls_v && (g_set_calls_v == 1 ==> g_set_arg_v == S_RUN) && \
                     (g_run_calls_v == 1 ==> g_run_result_v))

//@FUNC
bool tm_run(void)
__CPROVER_requires(g_vp < g_npools && g_run_calls_v == 0 && g_set_calls_v == 0 && g_tss_calls == 0 && !g_run_failed && !g_seen_running && g_unlocks == 0)
/* the only use of set_all_states: with `running`, at most once per pool, and only after that pool's run() returned true */
__CPROVER_ensures(g_set_calls_v <= 1 && g_run_calls_v <= 1 && (g_set_calls_v == 1 ==> (g_set_arg_v == S_RUN && g_run_calls_v == 1 && g_run_result_v)))
/* false is returned exactly when a pool failed to start; the lock is released at return */
__CPROVER_ensures(__CPROVER_return_value == !g_run_failed && g_unlocks == 1)
__CPROVER_assigns(g_run_calls_v, g_run_result_v, g_run_failed, g_seen_running, g_set_calls_v, g_set_arg_v, g_tss_calls, g_unlocks)
//@LIFT body
#endif

void harness(void)
{
  struct pool p;
  struct scheduler s;
  p.sched_ = &s;
  vx_pool = &p;
  g_v = nondet_size();
  vx_exc = false;
#ifdef U_POOL_RUN
  size_t pool_threads = nondet_size();
  g_thread_offset = nondet_size();
  g_added = 0; g_add_calls_v = 0; g_barrier_waits = 0; g_thread_count = 0; g_add_tnum_v = 0;
  g_barrier_parties = pool_threads + 1;
  pool_run_startup(&p, 0, pool_threads);
  if (!vx_exc && g_add_calls_v == 1) VX_REACH("victim_started");
  if (!vx_exc && g_add_calls_v == 0) VX_REACH("victim_not_in_this_pool");
  if (vx_exc) VX_REACH("start_failed");
#endif
#ifdef U_TM_RUN
  g_npools = nondet_size();
  g_vp = nondet_size();
  g_run_calls_v = 0; g_set_calls_v = 0; g_tss_calls = 0; g_run_failed = false; g_seen_running = false; g_unlocks = 0;
  g_run_result_v = false; g_set_arg_v = 0;
  bool r = tm_run();
  if (r && g_set_calls_v == 1) VX_REACH("victim_pool_started_and_set_running");
  if (r && g_run_calls_v == 1 && g_set_calls_v == 0) VX_REACH("victim_pool_has_no_scheduler");
  if (r && g_run_calls_v == 0) VX_REACH("already_running");
  if (!r) VX_REACH("start_failed");
#endif
}
