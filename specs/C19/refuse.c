/* C19 unit group 1 -- refusals take no step (T contracts)
 *   scheduled_thread_pool::{suspend_processing_unit_direct, suspend_direct, resume_direct}
 * "Operations the pool does not support (suspending without elasticity, a pool suspending itself) are refused with an
 *  error and leave the pool running."
 * The callee that performs the suspension/resume (the *_internal member) is a T stub: it counts its calls, records its
 * arguments and asserts the order predicate "no step after a refusal has been reported".
 */
#include "c19.h"

static void throws_if(struct error_code *ec, pika_error errcode)
//@LIFT throws_if
static bool has_scheduler_mode(struct scheduler *self, scheduler_mode_t mode)
//@LIFT has_scheduler_mode

/* ---- T stub: the function that carries the request out ---- */
static long g_int_calls;              /* saturating 0, 1, many */
static size_t g_int_core;
static bool g_int_blocking;
static struct error_code *g_int_ec;
static struct pool *g_int_self;
static void vx_internal_step(struct pool *self, struct error_code *ec)
{
  VX_ASSERT(g_refusals == 0, "refused request left the pool running: no suspension/resume step after the error has been reported");
  VX_ASSERT(!vx_exc, "no step while an exception is in flight");
  if (g_int_calls < 2) g_int_calls++;
  g_int_self = self;
  g_int_ec = ec;
}
static void suspend_processing_unit_internal(struct pool *self, size_t virt_core, struct error_code *ec)
{
  vx_internal_step(self, ec);
  g_int_core = virt_core;
  /* the callee may itself report "already stopped" through ec / throw: irrelevant for the caller's contract */
}
static void suspend_internal(struct pool *self, struct error_code *ec) { vx_internal_step(self, ec); }
static void resume_internal(struct pool *self, bool blocking, struct error_code *ec)
{
  vx_internal_step(self, ec);
  g_int_blocking = blocking;
}

#define T_PRE(self, ec) ((self) == vx_pool && (self)->sched_ != NULL && ((ec) == &vx_throws || (ec) == &vx_ec_obj) && \
                         g_refusals == 0 && g_int_calls == 0 && !vx_exc)
#define T_FRAME g_refusals, g_int_calls, g_int_core, g_int_blocking, g_int_ec, g_int_self, vx_exc, g_thrown_code, vx_ec_obj

#ifdef U_SUSPEND_PU_DIRECT
//@FUNC
void suspend_processing_unit_direct(struct pool *self, size_t virt_core, struct error_code *ec)
__CPROVER_requires(T_PRE(self, ec))
/* an unsupported request is refused with an error ... */
__CPROVER_ensures(UNSUPPORTED_NO_ELASTICITY(self) ==> g_refusals >= 1)
__CPROVER_ensures(UNSUPPORTED_OWN_PU(self) ==> g_refusals >= 1)
__CPROVER_ensures(g_refusals >= 1 ==> ERROR_VISIBLE(ec))
/* ... and leaves the pool running: no suspension step, whether ec is `throws` or an error_code object */
__CPROVER_ensures(g_refusals >= 1 ==> g_int_calls == 0)
/* otherwise the suspension is carried out exactly once, for the processing unit and error_code it was asked for */
__CPROVER_ensures(g_refusals == 0 ==> (g_int_calls == 1 && g_int_self == self && g_int_core == virt_core && g_int_ec == ec))
__CPROVER_assigns(T_FRAME)
//@LIFT body
#endif

#ifdef U_SUSPEND_DIRECT
//@FUNC
void suspend_direct(struct pool *self, struct error_code *ec)
__CPROVER_requires(T_PRE(self, ec))
__CPROVER_ensures(UNSUPPORTED_SELF(self) ==> g_refusals >= 1)
__CPROVER_ensures(g_refusals >= 1 ==> ERROR_VISIBLE(ec))
__CPROVER_ensures(g_refusals >= 1 ==> g_int_calls == 0)
__CPROVER_ensures(g_refusals == 0 ==> (g_int_calls == 1 && g_int_self == self && g_int_ec == ec))
__CPROVER_assigns(T_FRAME)
//@LIFT body
#endif

#ifdef U_RESUME_DIRECT
//@FUNC
void resume_direct(struct pool *self, struct error_code *ec)
__CPROVER_requires(T_PRE(self, ec))
/* resuming is always supported: nothing is refused, the (blocking) resume is carried out exactly once */
__CPROVER_ensures(g_refusals == 0 && g_int_calls == 1 && g_int_self == self && g_int_ec == ec && g_int_blocking)
__CPROVER_assigns(T_FRAME)
//@LIFT body
#endif

void harness(void)
{
  struct pool p;
  struct scheduler s;
  s.n = nondet_size();
  s.mode_ = nondet_u32();
  p.sched_ = &s;
  p.threads_size = nondet_size();
  vx_pool = &p;
  env_self_ptr = nondet_bool();
  env_cur_pool = nondet_bool() ? &p : &vx_other_pool;
  vx_ec_obj.value = nondet_int();   /* whatever the caller left in its error_code */
  struct error_code *ec = nondet_bool() ? &vx_throws : &vx_ec_obj;
  g_refusals = 0;
  g_int_calls = 0;
  vx_exc = false;
#ifdef U_SUSPEND_PU_DIRECT
  suspend_processing_unit_direct(&p, nondet_size(), ec);
  if (UNSUPPORTED_NO_ELASTICITY(&p)) VX_REACH("no_elasticity");
  if (!UNSUPPORTED_NO_ELASTICITY(&p) && UNSUPPORTED_OWN_PU(&p)) VX_REACH("own_pu_without_stealing");
#endif
#ifdef U_SUSPEND_DIRECT
  suspend_direct(&p, ec);
#endif
#ifdef U_RESUME_DIRECT
  resume_direct(&p, ec);
#endif
#ifndef U_RESUME_DIRECT
  if (g_refusals >= 1 && ec == &vx_throws) VX_REACH("refused_by_exception");
  if (g_refusals >= 1 && ec == &vx_ec_obj) VX_REACH("refused_through_error_code");
#endif
  if (g_refusals == 0) VX_REACH("carried_out");
}
