# C19 -- additional units: mutator closure of the per-worker runtime_state word (life-cycle writers).
# Defines MORE_UNITS / MORE_META / MORE_STATIC; merged into specs/C19/spec.py by the maintainer.  Works both when this
# text is exec'd inside spec.py (its names are then already there) and stand-alone (scratch property C19M).
import re as _re

if "POOL" not in globals():
    _g = {}
    exec(compile(open("/verif/specs/C19/spec.py").read(), "/verif/specs/C19/spec.py", "exec"), _g)
    for _k, _v in _g.items():
        if not _k.startswith("__") and _k not in ("UNITS", "META", "STATIC"):
            globals()[_k] = _v

from vx.lift import Lift, Sub, Call, Guard, DropStmt, Rule, LiftError   # noqa: E402
from vx.run import Unit                                                  # noqa: E402
from vx import census                                                     # noqa: E402

TM_CPP = "libs/pika/thread_manager/src/thread_manager.cpp"
MT = "../C19/"      # the templates live next to this file

# ---- spelling rules (purely syntactic) --------------------------------------------------------------------------------
# std::unique_lock<M> l(m);  (after the get_pu_mutex rewrite the argument contains a comma; the defer_lock form has been
# lowered by LOCK_DEFER before)
LOCK_ANY = Guard(r"std::unique_lock<[^;]*?>\s*(\w+)\(\s*((?:[^;()]|\([^;()]*\)|\((?:[^;()]|\([^;()]*\))*\))*?)\s*\);",
                 r"struct ulock \1 = ulock_make(&(\2));", r"ulock_dtor(&\1);", None)
EC_REF = [   # `error_code& ec` parameter and the pika::throws sentinel compared / assigned by reference
    Sub(r"&ec\b", "ec", None),
    Sub(r"&(?:pika::)?throws\b", "&vx_throws", None),
    Sub(r"(?<![\w&*.>])ec(?=\s*=[^=])", "*ec", None),
]
POOL_MEMBERS = [
    Sub(r"\bthread_count_\b", "g_thread_count", None),
    Sub(r"\bthread_offset_\b", "g_thread_offset", None),
    Sub(r"\bthreads_\.empty\(\)", "(self->threads_size == 0)", None),
    Sub(r"\bthreads_\.clear\(\)", "threads_clear(self)", None),
    Method("resize", "threads_resize(self, {0})"),
    Method("exchange", "atomic_exchange(&{recv}, {0})"),
    Call0(r"(?:this->)?sched_->Scheduler::set_all_states_at_least", "sched_set_all_states_at_least(self->sched_, {0})"),
    Call0(r"(?:this->)?sched_->Scheduler::do_some_work", "sched_do_some_work(self->sched_, {0})"),
    Call0(r"(?:this->)?sched_->Scheduler::on_error", "sched_on_error(self->sched_, {0})"),
]
# threads_[i] = std::thread(&scheduled_thread_pool::thread_func, this, virt_core, thread_num, std::move(startup));
SPAWN = Call(r"\bthreads_\[([^\]]+)\]\s*=\s*std::thread", "thread_spawn_checked(self, {h1}, {1}, {2}, {3})", 1)
TAKE = [Sub(r"\bstd::thread\s+(\w+)\s*;", r"/* std::thread \1 */", None),
        Sub(r"\bstd::swap\(\s*threads_\[([^\]]+)\]\s*,\s*(\w+)\s*\)", r"thread_take(self, \1)", None),
        Method("join", "thread_join_taken()", None)]

MORE_POOL = EC_REF + POOL_MEMBERS + CALLER[:2] + [
    Sub(r"\bpika::get_worker_thread_num\(\)", "get_worker_thread_num()", None),
] + POOL + [LOCK_ANY, THIS]

# loop contract of the (single) yield_while of a body, attached to YieldWhile's output `while (1) { bool vx_yw1; ...`
def yw_contract(k, text):
    return Sub(r"while \(1\) (\{ bool vx_yw%d;)" % k, "while (1)\n" + text.strip().replace("\\", "\\\\") + "\n\\1", 1)


LOOP_RM_WAIT = """
__CPROVER_assigns(g_yields)
__CPROVER_loop_invariant(g_yields >= 0 && g_yields <= 2)
"""
# optional: a CAS retry loop (`while (... compare_exchange_weak ...) {`), as in the candidate repair of observation O2
CAS_LOOP = Sub(r"(\bwhile\s*\((?:[^(){};]|\((?:[^(){};]|\([^(){};]*\))*\))*atomic_cas_weak(?:[^(){};]|\((?:[^(){};]|\([^(){};]*\))*\))*\))\s*\{",
               r"\1\n__CPROVER_assigns(oldstate, g_v_state, g_o_state, lin_count, lin_old, lin_new, lin_first_old, lin_first_new, g_last_read, g_first_seen, g_reads, g_interfered, g_after_step)\n"
               r"__CPROVER_loop_invariant(REMOVABLE(g_v_state) && REMOVABLE(oldstate) && g_reads >= 0 && g_reads <= 2 && lin_count == 0 && (virt_core == g_v ==> (g_reads >= 1 && oldstate == g_last_read)))\n{", None)

MORE_UNITS = [
    Unit("more.add_pu_internal", MT + "more.c", defines=["U_ADD_PU"], enforce="add_processing_unit_internal",
         lifts=dict(STATE_HELPERS, body=Lift(IMPL, r"void scheduled_thread_pool<Scheduler>::add_processing_unit_internal\(",
                                             rules=[SPAWN] + MORE_POOL)),
         funcs=[IMPL + ": scheduled_thread_pool::add_processing_unit_internal"], min_obligations=60,
         doc="S/M/T (adder): the only step is stopped -> initialized (stutter on initialized) on the addressed unit, under its PU "
             "mutex, for a unit without a worker thread; then exactly one worker thread is started for that unit while the "
             "word is `initialized`; a unit that already has a thread is refused without a step"),
    Unit("more.remove_pu_internal", MT + "more.c", defines=["U_REMOVE_PU"], enforce="remove_processing_unit_internal",
         lifts=dict(STATE_HELPERS, body=Lift(IMPL, r"void scheduled_thread_pool<Scheduler>::remove_processing_unit_internal\(",
                                             rules=TAKE + MORE_POOL + [Method("compare_exchange_weak", "atomic_cas_weak(&{recv}, &{0}, {1})")],
                                             post=[CAS_LOOP, yw_contract(1, LOOP_RM_WAIT)])),
         funcs=[IMPL + ": scheduled_thread_pool::remove_processing_unit_internal"], min_obligations=60,
         solver=["--sat-solver", "cadical"],   # MiniSat does not finish (> 150 s) on some FAILING instances of this unit; CaDiCaL needs ~6 s
         doc="S/M/T (remover): the only step is x -> stopping (x < stopping) on the addressed worker, under its PU mutex, for a "
             "joinable worker; `stopped` is never stored by the remover; the thread is taken under the mutex and joined "
             "exactly once after the request, with no mutex held; a unit without a thread is refused without a step"),
]

# ---- thread_func: the worker's start-up steps (fragment: `++thread_count_;` ... `startup->wait();`) ---------------------
MORE_UNITS += [
    Unit("more.thread_func_startup", MT + "more.c", defines=["U_TF_STARTUP"], enforce="thread_func_startup",
         lifts=dict(STATE_HELPERS, body=Lift(IMPL, r"init_tss_helper<Scheduler> tss_helper\(\*this, thread_num, global_thread_num\);",
                                             fragment_end=r"startup->wait\(\);",
                                             rules=[Sub(r"\binit_tss_helper<Scheduler>\s+\w+\([^;]*\);", "", 1),
                                                    Sub(r"\bstartup->wait\(\)", "startup_wait()", 1)] + MORE_POOL)),
         funcs=[IMPL + ": scheduled_thread_pool::thread_func (fragment: `init_tss_helper ...; ++thread_count_; state.exchange(running); "
                       "PIKA_ASSERT; startup->wait();`)"], min_obligations=30,
         doc="S/T (worker, start-up): exactly one write on its own word, initialized -> running (stutter on running), and only "
             "then the worker arrives at the start-up barrier (so run() returns only after every worker left `initialized`)"),
]

MORE_UNITS += [
    Unit("more.thread_func_exit", MT + "more.c", defines=["U_TF_EXIT"], enforce="thread_func_exit",
         lifts=dict(STATE_HELPERS, body=Lift(IMPL, r"(?<![\w:])scheduling_loop\(",
                                             fragment_end=r"\);(?=\s*\}\s*catch \(pika::exception const& e\))",
                                             rules=[Call0(r"(?<![\w:>.])scheduling_loop", "scheduling_loop_stub(self, {0})"),
                                                    Sub(r"\bthread_schedule_state::(\w+)", r"thread_schedule_state_\1", None),
                                                    Sub(r"\bexecution::thread_priority::default_\b", "thread_priority_default", None),
                                                    Call0(r"(?:this->)?sched_->Scheduler::get_thread_count", "sched_get_thread_count3(self->sched_, {0}, {1}, {2})"),
                                                    Call0(r"(?:this->)?sched_->Scheduler::get_queue_length", "sched_get_queue_length(self->sched_, {0})")] + MORE_POOL,
                                             post=[Sub(r"\(\*get_state\(([^()]*)\)\)\s*" + CMP, r"atomic_load(get_state(\1)) \2", None)])),   # implicit conversion = load
         funcs=[IMPL + ": scheduled_thread_pool::thread_func (fragment: `scheduling_loop(...); PIKA_ASSERT(... || get_state(thread_num) > stopping);`)"],
         min_obligations=30,
         doc="S (worker, after the loop): no write after the loop's final step; the authors' assertion that a worker ends only "
             "with empty queues or with its word above `stopping` holds (it does not under the transient lowering of O2)"),
]

# ---- stop_locked / stop / report_error -----------------------------------------------------------------------------------
LOOP_SET_ALL2 = """
__CPROVER_assigns(vx_it1, g_v_state, g_o_state, lin_count, lin_old, lin_new, lin_first_old, lin_first_new, g_interfered)
__CPROVER_loop_invariant(vx_it1 <= self->n && lin_count >= 0 && lin_count <= 3 && (g_v_state == S_INIT || g_v_state == S_RUN))
__CPROVER_loop_invariant(vx_it1 > g_v ? (lin_count >= 1 && lin_new == S_RUN && (lin_old == S_INIT || lin_old == S_RUN) && g_v_state == S_RUN) : lin_count == 0)
"""
UNLOCK_GUARD = Guard(r"(?:::)?pika::detail::unlock_guard<\w+>\s*(\w+)\((\w+)\);", r"tm_unlock(\2);", r"tm_relock(\2);", None)
SL_LOOP = """
__CPROVER_assigns(i, g_rm_calls_v, g_rm_calls_o, g_refusals, vx_exc, g_thrown_code, vx_ec_obj, g_v_joinable, g_join_seen, g_dsw_calls, g_dsw_after_raise, vx_tm)
__CPROVER_loop_invariant(i <= self->threads_size && !vx_exc && vx_tm.owns && g_raise_calls == 1 && g_rm_calls_o >= 0 && g_rm_calls_o <= 2 && g_dsw_calls >= 1 && g_dsw_calls <= 2 && g_dsw_after_raise >= 1 && g_dsw_after_raise <= 2 && g_refusals >= 0 && g_refusals <= 2)
__CPROVER_loop_invariant(g_rm_calls_v == ((i > g_v && g_join_seen) ? 1 : 0))
__CPROVER_loop_invariant(i <= g_v ==> !g_join_seen)
"""
MORE_UNITS += [
    Unit("more.stop_locked", MT + "more.c", defines=["U_STOP_LOCKED"], enforce="stop_locked",
         lifts=dict(STATE_HELPERS, body=Lift(IMPL, r"void scheduled_thread_pool<Scheduler>::stop_locked\(", rules=[
             Call0(r"(?<![\w:>.])wait", "pool_wait(self);", stmt=True),
             maythrow("resume_internal", 2), maythrow("remove_processing_unit_internal", 1), UNLOCK_GUARD] + MORE_POOL,
             loops={1: SL_LOOP, "count": 1})),
         funcs=[IMPL + ": scheduled_thread_pool::stop_locked"], min_obligations=60,
         doc="T/S (raiser): wait() iff blocking; resume_internal(blocking, throws) once, BEFORE set_all_states_at_least(stopping) "
             "once (the only own step on a word: x -> stopping, x < stopping, at most once); do_some_work afterwards; blocking: "
             "remove_processing_unit_internal(i) exactly once for every worker seen joinable, after the raise, with the "
             "caller's lock released, then threads_.clear(); nothing at all for a pool without workers"),
    Unit("more.stop", MT + "more.c", defines=["U_STOP"], enforce="stop",
         lifts=dict(STATE_HELPERS, body=Lift(IMPL, r"void scheduled_thread_pool<Scheduler>::stop\(std::unique_lock<std::mutex>& l, bool blocking\)", rules=[
             Method("owns_lock", "tm_owns({recv})", None),
             Sub(r"\breturn\s+(stop_locked\([^;]*\));", r"{ \1; return; }", None),      # `return f();` of a void function
             Call0(r"(?<![\w:>.])stop_locked", "stop_locked(self, {0}, {1})")])),
         funcs=[IMPL + ": scheduled_thread_pool::stop"], min_obligations=5,
         doc="T: stop_locked(l, blocking) exactly once, no word touched"),
    Unit("more.report_error", MT + "more.c", defines=["U_REPORT_ERROR"], enforce="report_error",
         lifts=dict(STATE_HELPERS, body=Lift(IMPL, r"void scheduled_thread_pool<Scheduler>::report_error\(", rules=[
             Call0(r"this->thread_pool_base::report_error", "base_report_error(self, {0})")] + MORE_POOL)),
         funcs=[IMPL + ": scheduled_thread_pool::report_error"], min_obligations=20,
         doc="T/S (raiser): set_all_states_at_least(terminating) exactly once, before the error is handed on; the only own step "
             "on a word is x -> terminating (x < terminating)"),
    Unit("more.set_all_states_startup", MT + "more.c", defines=["U_SET_ALL_STARTUP"], enforce="set_all_states",
         lifts=dict(STATE_HELPERS, body=Lift(SB_CPP, r"void scheduler_base::set_all_states\(pika::runtime_state s\)", rules=SCHED,
                                             loops={1: LOOP_SET_ALL2, "count": 1})),
         funcs=[SB_CPP + ": scheduler_base::set_all_states"], min_obligations=40,
         doc="S (starter): at its start-up call site every store of set_all_states(running) is initialized -> running or "
             "running -> running (never sleeping -> running, never a step from stopping / terminating / stopped)"),
]

# ---- scheduling_loop: the worker's steps on its own word (fragments) ------------------------------------------------------
def _cleanup(args, env):   # overload by arity: cleanup_terminated(delete_all) / cleanup_terminated(num_thread, delete_all)
    return "sp_cleanup_terminated_all(%s)" % args[0] if len(args) == 1 else "sp_cleanup_terminated(%s, %s)" % (args[0], args[1])


MLOOP_RULES = ENUMS + [
    Sub(r"\bthread_schedule_state::(\w+)", r"thread_schedule_state_\1", None),
    Sub(r"\bexecution::thread_priority::default_\b", "thread_priority_default", None),
    Call0(SP + "wait_or_add_new", "sp_wait_or_add_new({0}, {1}, &{2}, {3}, &{4})"),
    Call0(SP + "cleanup_terminated", _cleanup),
    Call0(SP + "get_queue_length", "sp_get_queue_length({0})"),
    Call0(SP + "get_thread_count", "sp_get_thread_count({0}, {1}, {2})"),
    Call0(SP + "suspend", "sp_suspend({0})"),
    Sub(r"\bparams\.outer_\.empty\(\)", "outer_empty()", None),
    Sub(r"\bparams\.outer_\(\)", "outer_call()", None),
    Sub(r"\bparams\.(max_\w+?)_\b", r"params_\1", None),
    Sub(r"\bpika::execution::this_thread::detail::get_agent_storage\(\)", "get_agent_storage()", None),
    Sub(r"\bthis_state\b", "(*vx_ref_this_state)", None),
    Method("load", "atomic_load(&{recv})"),
    Method("store", "atomic_store(&{recv}, {0})"),
]
# `break` of the scheduling loop inside a fragment = the fragment is left and the loop ends
BREAK = Sub(r"\bbreak\s*;", "{ g_broke = true; return; }", "+")
MORE_UNITS += [
    Unit("more.loop_top", MT + "more_loop.c", defines=["U_LOOP_TOP"], enforce="loop_top",
         lifts={"throws_if": HELPERS["throws_if"],
                "body": Lift(LOOP, r"bool running = this_state\.load\(", fragment_end=r";", rules=MLOOP_RULES)},
         funcs=[LOOP + ": scheduling_loop (fragment: `bool running = this_state.load(relaxed) < runtime_state::pre_sleep;`)"],
         min_obligations=10,
         doc="S (worker): one read of its own word decides `running`; establishes J3 (!running => word is pre_sleep, stopping or "
             "terminating), keeps J1 (word of an awake worker) and J2 (may_exit => stopping | terminating); no write"),
    Unit("more.loop_sleep", MT + "more_loop.c", defines=["U_LOOP_SLEEP"], enforce="loop_sleep",
         lifts={"throws_if": HELPERS["throws_if"],
                "body": Lift(LOOP, r"if \(\s*scheduler\.SchedulingPolicy::wait_or_add_new\(",
                             fragment_end=r"\}(?=\s*if \(!params\.inner_\.empty\(\)\))", rules=MLOOP_RULES)},
         funcs=[LOOP + ": scheduling_loop (fragment: `if (wait_or_add_new(...)) { can_exit ...; pre_sleep branch; may_exit branch }`)"],
         min_obligations=20,
         doc="S (worker): the sleep decision never writes the word itself; may_exit is raised only after the word was seen "
             "stopping | terminating by a worker that is not running (J2 kept); after suspend() the word is running or a "
             "stop / terminate request is standing (J1 kept)"),
    Unit("more.loop_tail", MT + "more_loop.c", defines=["U_LOOP_TAIL"], enforce="loop_tail",
         lifts={"throws_if": HELPERS["throws_if"],
                "body": Lift(LOOP, r"if \(scheduler\.custom_polling_function\(\) ==",
                             fragment_end=r"else \{ scheduler\.SchedulingPolicy::cleanup_terminated\(true\); \}\s*\}",
                             rules=[Sub(r"\bscheduler\.custom_polling_function\(\)\s*==\s*pika::threads::detail::polling_status::busy", "custom_polling_busy()", 1)] +
                             MLOOP_RULES + [BREAK])},
         funcs=[LOOP + ": scheduling_loop (fragment: custom polling; terminating check ... `this_state.store(stopped); break;` ... end of the loop body)"],
         min_obligations=30,
         doc="S/T (worker, shut-down): the only write is the final one, stopping -> stopped or terminating -> stopped, made only "
             "when the worker is not running, may_exit, cleanup_terminated(true) succeeded, no suspended threads, own queue "
             "empty; it is followed by `break` with no further access to the word; the only other exit is a terminate request "
             "read from the word; otherwise J1 / J2 are handed to the next iteration"),
]

# ---- start-up call sites: scheduled_thread_pool::run (fragment) and thread_manager::run -------------------------------------
PR_LOOP = """
__CPROVER_assigns(thread_num, g_added, g_add_calls_v, g_add_tnum_v, vx_exc, g_thrown_code)
__CPROVER_loop_invariant(thread_num <= pool_threads && g_added == thread_num && !vx_exc && g_barrier_waits == 0)
__CPROVER_loop_invariant(g_add_calls_v == ((thread_num > g_v) ? 1 : 0) && (g_add_calls_v >= 1 ==> g_add_tnum_v == g_thread_offset + g_v))
"""
TM_LOOP = """
__CPROVER_assigns(vx_it1, g_run_calls_v, g_run_result_v, g_run_failed, g_set_calls_v, g_set_arg_v)
__CPROVER_loop_invariant(TM_LOOP_INV)
"""


def _by_arity(name1, nameN):
    return lambda args, env: ("%s()" % name1) if not [a for a in args if a] else "%s(%s)" % (nameN, ", ".join(args))


MORE_UNITS += [
    Unit("more.pool_run_startup", MT + "more_run.c", defines=["U_POOL_RUN"], enforce="pool_run_startup",
         lifts={"throws_if": HELPERS["throws_if"],
                "body": Lift(IMPL, r"topology const& topo = get_topology\(\);(?=\s*for\b)",
                             fragment_end=r"PIKA_ASSERT\(pool_threads == std::size_t\(thread_count_\.load\(\)\)\);", rules=[
                    Sub(r"\btopology const&\s*\w+\s*=\s*get_topology\(\);", "", 1),
                    Sub(r"\bthis->", "", None),
                    Sub(r"\bthread_offset_\b", "g_thread_offset", None),
                    Sub(r"\bthreads::detail::mask_cref_type\s+\w+\s*=[^;]*;", "", 1),
                    Call0(r"(?<![\w:>.])add_processing_unit_internal", "{ add_processing_unit_internal(self, {0}, {1}); if (vx_exc) return; }", stmt=True),
                    Sub(r"\bstartup->wait\(\)", "barrier_wait()", None),
                    Sub(r"\bthread_count_\.load\(\)", "thread_count_load()", 1),
                    Sub(r"\bstd::size_t\(((?:[^()]|\([^()]*\))*)\)", r"((size_t)(\1))", None)],
                    loops={1: PR_LOOP, "count": 1})},
         funcs=[IMPL + ": scheduled_thread_pool::run (fragment: the loop calling add_processing_unit_internal, `startup->wait();`, PIKA_ASSERT)"],
         min_obligations=15,
         doc="T: add_processing_unit_internal(core, thread_offset_ + core, startup) exactly once for every core < pool_threads, in "
             "order, then exactly one wait at the start-up barrier: run() goes on only after every worker has published `running`"),
    Unit("more.tm_run", MT + "more_run.c", defines=["U_TM_RUN"], enforce="tm_run",
         lifts={"throws_if": HELPERS["throws_if"],
                "body": Lift(TM_CPP, r"bool thread_manager::run\(\)", rules=ENUMS + [
                    Sub(r"\bauto&\s*rp\s*=\s*pika::resource::get_partitioner\(\);", "", 1),
                    Call0(r"\brp\.get_num_threads", _by_arity("rp_get_num_threads_all", "rp_get_num_threads")),
                    RangeFor(1),
                    Sub(r"\bauto&\s*pool_iter\s*=\s*pools_\[(\w+)\];", r"size_t pool_iter = \1;", 1),
                    Sub(r"\bpools_\.size\(\)", "pools_size()", 1),
                    Call0(r"\bpool_iter->(\w+)", lambda args, env: "pool_%s(%s)" % (env["h1"], ", ".join(["pool_iter"] + [a for a in args if a]))),
                    Sub(r"\bscheduler_base\s*\*\s*(\w+)\s*=", r"struct scheduler *\1 =", 1),
                    Method("set_all_states", "sched_set_all_states(&{recv}, {0})", 1),
                    Guard(r"std::unique_lock<mutex_type>\s*(\w+)\(mtx_\);", r"struct tmlock \1 = tm_lock_make();", r"tm_lock_dtor(&\1);", 1)],
                    loops={1: TM_LOOP, "count": 1})},
         funcs=[TM_CPP + ": thread_manager::run"], min_obligations=15,
         doc="T: the only call site of set_all_states: set_all_states(running), at most once per pool, only after that pool's "
             "run() returned true (all its workers have passed the start-up barrier), under the thread manager's lock"),
]

MORE_UNITS += [
    Unit("more.lemma_closure", MT + "more_lemma.c", kind="lemma", min_obligations=15,
         doc="over all guarantees on the word (hand-shake + life cycle): every step is a graph edge; a sleeping (or pre_sleep) "
             "worker's word is moved by others only to stopping / terminating, back to running only by the worker itself; "
             "`stopped` is stored only by the worker, from stopping / terminating; requests are never taken back; the new "
             "relies are reflexive / transitive and contain the concurrent parties' guarantees; J1-J3 are rely-stable; O1 gap "
             "made explicit (a raise on pre_sleep is outside suspend's rely)"),
]

# ---- census: every textual write site of the per-worker runtime_state word -------------------------------------------------
# The word (scheduler_base::states_[i]) can be written only (a) inside scheduler_base.cpp, through the member states_;
# (b) through the reference returned by the non-const scheduler_base::get_state(i); (c) through set_all_states /
# set_all_states_at_least.  The facts below pin the number of textual sites of each kind; MORE_META["census"] maps every
# site to the unit that puts it under contract.  A new / vanished site is exit 2 ("UNVERIFIED MUTATOR").
_ALL = "libs/pika/**/*.[ch]pp"
_TP = "libs/pika/thread_pools/**/*.[ch]pp"
_SCHEDS = "libs/pika/schedulers/**/*.[ch]pp"
_WRITE = r"\.(?:store|exchange|compare_exchange_\w+|fetch_\w+)\s*\("
MORE_STATIC = [
    census.sites("states_ is named only in scheduler_base.{hpp,cpp}", [_ALL], r"\bstates_\b", 18,
                 "1 declaration (scheduler_base.hpp:349) + 17 uses in scheduler_base.cpp; no scheduler / pool names the member"),
    census.sites("scheduler_base.cpp atomic write operations", [SB_CPP], _WRITE, 6,
                 "5 on the state word (constructor 65, suspend 113 + 121, set_all_states 242, set_all_states_at_least 250) + mode_.data_.store 295"),
    census.sites("scheduler_base.cpp writes on the state word", [SB_CPP], r"(?:\bstates_\s*\[[^\]]*\]|\bstate)\s*" + _WRITE, 5),
    census.sites("thread_pools atomic write operations", [_TP], _WRITE, 6,
                 "all 6 are on the state word: impl (suspend_internal CAS), (thread_func exchange), (add_pu exchange), "
                 "(remove_pu compare_exchange_weak; it was exchange + store before the repair of finding O2), (suspend_pu_internal CAS); "
                 "scheduling_loop (final store)"),
    census.sites("schedulers atomic write operations", [_SCHEDS], _WRITE, 7,
                 "none on the state word: curr_queue_.store (local_priority_queue_scheduler) and six statistics counters (thread_queue)"),
    census.sites("get_state(i) sites (pool / scheduler)", [_ALL], r"\bget_state\s*\(\s*(?!\)|std::memory_order)", 20,
                 "4 declarations / definitions of scheduler_base::get_state(i) (+3 of the value-returning pool get_state(i)), 1 pool-level "
                 "call, and 12 scheduler-level calls: 6 bind a reference (impl 436, 1310, 1336, 1390, 1453; scheduling_loop 266), "
                 "1 CAS directly (impl 367), 5 only load / compare (scheduled_thread_pool.hpp 152, impl 171, 474, thread_pool_base.cpp 49, 72)"),
    census.sites("no get_state(i) in the schedulers", [_SCHEDS], r"\bget_state\s*\(\s*(?!\)|std::memory_order)", 0),
    census.sites("references bound to a state word", [_ALL], r"std::atomic<(?:pika::)?runtime_state>\s*&\s*\w+\s*=", 6,
                 "impl 436 (thread_func: exchange), 1310 (add_pu: exchange), 1336 (remove_pu: exchange + store), 1390 (suspend_pu_internal: CAS + load), "
                 "1453 (resume_pu_direct: load only); scheduling_loop 266 (this_state: loads + final store)"),
    census.sites("set_all_states sites", [_ALL], r"\bset_all_states\s*\(", 3, "declaration, definition, thread_manager.cpp:849 (unit more.tm_run)"),
    census.sites("set_all_states_at_least sites", [_ALL], r"\bset_all_states_at_least\s*\(", 4,
                 "declaration, definition, impl 143 (report_error: more.report_error), impl 218 (stop_locked: more.stop_locked)"),
    census.sites("scheduling_loop this_state sites", [LOOP], r"\bthis_state\b", 6,
                 "266 binding, 290 load (more.loop_top), 528 load (more.loop_sleep, loop.sleep_decision), 561 load + 578 load + 590 store (more.loop_tail)"),
    census.sites("scheduling_loop may_exit writes", [LOOP], r"\bmay_exit\s*=(?!=)", 4,
                 "275 `bool may_exit = false`, 311 `= false` (a thread was found), 542 `= true` (more.loop_sleep), 595 `= false` (more.loop_tail)"),
    census.sites("scheduling_loop running definitions", [LOOP], r"\bbool\s+running\s*=", 1, "290 (more.loop_top); `running` is never assigned again"),
    census.sites("stop_locked / remove / add call sites", [_ALL], r"\b(?:stop_locked|remove_processing_unit_internal|add_processing_unit_internal)\s*\(", 11,
                 "stop_locked: declaration, definition, ~scheduled_thread_pool, stop, run's handler; remove_processing_unit_internal: declaration, definition, "
                 "stop_locked; add_processing_unit_internal: declaration, definition, run"),
    census.sites("thread_func sites", [_ALL], r"\bthread_func\b", 3,
                 "declaration, definition, the std::thread started by add_processing_unit_internal (more.add_pu_internal): a worker "
                 "thread is started nowhere else"),
]

MORE_META = {
    "explanation":
        "Mutator closure of the per-worker runtime_state word (scheduler_base::states_[i]).  MORE_STATIC pins every textual write "
        "site; each site is lifted into a unit whose own steps are asserted (vx_step) to lie in that party's guarantee: "
        "worker W = {initialized->running (thread_func), pre_sleep->sleeping, sleeping->running (scheduler_base::suspend), "
        "stopping|terminating->stopped (last statement of scheduling_loop)}; requesters Q = {running->pre_sleep}; raisers R = "
        "{x->stopping, x->terminating, x below} (stop_locked / report_error through set_all_states_at_least, "
        "remove_processing_unit_internal); adder A = {stopped->initialized}; starter S = {initialized->running, running->running} "
        "(thread_manager::run through set_all_states).  more.lemma_closure draws the property-level consequence over the union. "
        "EXPECTED FAILURE on the pinned tree: more.remove_pu_internal (observation O2: `exchange(stopping)` on a word that is "
        "already terminating / stopped LOWERS it for a moment and then stores the old value back -- terminating->stopping, "
        "stopped->stopping are not edges, and the remover stores `stopped`); -DKNOWN_REMOVE_BOUNCE (the word is at most `stopping` "
        "until the exchange) proves the unit completely; so does the candidate repair (CAS-raise loop instead of exchange + restore). "
        "Concrete consequence of O2 (debug builds): with the transient terminating->stopping in the rely (-DEXPERIMENT_O2_BOUNCE) the "
        "authors' own PIKA_ASSERT at the end of thread_func (`queues empty || state > stopping`) fails in more.thread_func_exit.",
    "census": [
        "scheduler_base.cpp:65   scheduler_base ctor  states_[i].store(initialized)        construction, before the object is shared: not a unit (A-LIFE)",
        "scheduler_base.cpp:113  suspend              states_[n].store(sleeping)           state.sched_suspend   (W: pre_sleep->sleeping)",
        "scheduler_base.cpp:121  suspend              states_[n].compare_exchange_strong   state.sched_suspend   (W: sleeping->running)",
        "scheduler_base.cpp:242  set_all_states       state.store(s)                       state.set_all_states, more.set_all_states_startup (S); call site thread_manager.cpp:849 = more.tm_run",
        "scheduler_base.cpp:250  set_all_states_at_least  state.store(s)                   state.set_all_states_at_least (R); call sites impl:143 = more.report_error, impl:218 = more.stop_locked",
        "scheduled_thread_pool_impl.hpp:367   suspend_internal                  get_state(i).compare_exchange_strong   state.suspend_internal (Q)",
        "scheduled_thread_pool_impl.hpp:437   thread_func                       state.exchange(running)                more.thread_func_startup (W: initialized->running)",
        "scheduled_thread_pool_impl.hpp:1311  add_processing_unit_internal      state.exchange(initialized)            more.add_pu_internal (A); only caller run() = more.pool_run_startup",
        "scheduled_thread_pool_impl.hpp:1339  remove_processing_unit_internal   state.exchange(stopping)               more.remove_pu_internal (R) -- O2",
        "scheduled_thread_pool_impl.hpp:1345  remove_processing_unit_internal   state.store(oldstate)                  more.remove_pu_internal -- O2; only caller stop_locked = more.stop_locked",
        "scheduled_thread_pool_impl.hpp:1394  suspend_processing_unit_internal  state.compare_exchange_strong          state.suspend_pu_internal (Q)",
        "scheduling_loop.hpp:590              scheduling_loop                   this_state.store(stopped)              more.loop_tail (W: stopping|terminating->stopped), invariant carried by more.loop_top / more.loop_sleep",
        "scheduled_thread_pool_impl.hpp:474   thread_func                       get_state(thread_num) > stopping (read, PIKA_ASSERT)   more.thread_func_exit (W: no write after the loop)",
        "read-only holders of a reference / get_state(i): impl:171, 1453 (state.resume_pu_direct), scheduled_thread_pool.hpp:152, "
        "thread_pool_base.cpp:49, 72, scheduler_base.cpp select_active_pu / has_reached_state / is_state / get_minmax_state; the schedulers "
        "(libs/pika/schedulers) never touch the word",
    ],
    "trusted_base": [
        "specs/C19/more_state.h atomic_exchange: std::atomic::exchange is one indivisible read-modify-write (interfere() before it, as for "
        "load / store / CAS in state.h); a write of the value already held is a stutter, not a transition; atomic_cas_weak = strong CAS "
        "that may fail spuriously (only used by the candidate repair of O2)",
        "specs/C19/more_state.h std::thread stubs: thread_spawn (threads_[i] = std::thread(thread_func, this, i, n, startup): makes the slot "
        "joinable; asserts PU mutex held / slot not joinable), thread_take (std::swap(threads_[i], t)), thread_join_taken (t.join(): asserts "
        "no PU mutex held and the stop request placed); threads_.resize default-constructs non-joinable slots",
        "specs/C19/more.c T stubs: pool_wait, resume_internal (contract of state.resume_internal: writes no word, may throw), "
        "remove_processing_unit_internal (as callee of stop_locked), stop_locked (as callee of stop), sched_do_some_work, base report_error, "
        "on_error, get_worker_thread_num (arbitrary), unlock_guard on the thread manager's lock (struct tmlock)",
        "specs/C19/more.c sched_set_all_states_at_least: CONTRACT stub of scheduler_base::set_all_states_at_least as proved by "
        "state.set_all_states_at_least (interference, then the victim word is raised to s iff it is below s, one step at most)",
        "specs/C19/more.c startup_wait / specs/C19/more_run.c barrier_wait: the start-up barrier; barrier_wait: VX_ASSUME(c == g_added) - when "
        "run()'s wait returns every started worker has arrived, and each did ++thread_count_ before arriving (more.thread_func_startup)",
        "specs/C19/more_loop.c sp_suspend: CONTRACT stub of scheduler_base::suspend as proved by state.sched_suspend - VX_ASSUME(n == running || "
        "n == stopping || n == terminating) for the word at return; sp_get_queue_length / sp_get_thread_count: VX_ASSUME(r >= 0); "
        "wait_or_add_new / cleanup_terminated (both overloads) / outer callback / get_agent_storage / custom polling: T stubs",
        "specs/C19/more_run.c pool / resource-partitioner / scheduler stubs of thread_manager::run (one symbolic pool tracked precisely)",
        "spec rules (more_spec.py): LOCK_ANY (std::unique_lock<M> l(m) -> ulock_make + destructor lowering), SPAWN / TAKE (std::thread "
        "spelling -> stubs), BREAK (`break` of the scheduling loop inside a fragment -> flag + return), yw_contract / CAS_LOOP (attach a "
        "loop contract to YieldWhile's output / to a CAS retry loop), _cleanup / _by_arity (overload selection by argument count)",
    ],
    "assumptions": [
        "A-LIFE: the constructor's stores of `initialized` (scheduler_base.cpp:65) happen before the scheduler is shared",
        "adder (more.add_pu_internal): caller's duty = the PIKA_ASSERT on oldstate: the addressed unit's word is `stopped` or `initialized`, "
        "and nobody else writes the word of a unit without a worker thread (no pool-wide stop / terminate concurrent with "
        "add_processing_unit_internal; in this tree it is only called from run(), under the thread manager's lock)",
        "remover (more.remove_pu_internal): caller's duty = the PIKA_ASSERT on oldstate: the worker is running / stopping / terminating / "
        "stopped - not initialized, not suspending, not asleep (stop_locked wakes sleeping workers first); rely RELY_SHUTDOWN",
        "worker start-up (more.thread_func_startup, more.set_all_states_startup): between add_processing_unit_internal and the worker's "
        "own exchange(running) only the starter writes the word (RELY_STARTUP): no stop / suspend request before the worker is up",
        "awake worker (more.loop_*): rely RELY_AWAKE (requesters running->pre_sleep, raisers x->stopping|terminating incl. the transient "
        "lowering of O2); `running` and `may_exit` are written only at the censused sites; the code between the fragments does "
        "not touch the word (census `scheduling_loop this_state sites`)",
        "stop_locked / report_error: set_all_states_at_least is taken by its proved contract, i.e. under that unit's own assumption (no "
        "second life-cycle writer between its load and its store)",
        "observation O1 stays an assumption of state.sched_suspend: a stop / terminate request that hits the word while it is `pre_sleep` "
        "(after the scheduling loop's check, before suspend()'s unconditional store of `sleeping`) is in the raisers' guarantee "
        "(more.stop_locked reach raised_on_worker_about_to_sleep) but NOT in suspend's rely (more.lemma_closure reach o1_gap_...)",
    ],
    "not_decided": [
        "that join() returns / that a worker told to stop is awake to see it: stop_locked calls resume_internal BEFORE the raise and "
        "notifies nothing afterwards (do_some_work only signals the idle-backoff cv), so a worker that goes to sleep between the two "
        "(a suspension in flight concurrently with stop) is left blocked with its word at `stopping`",
        "the try / catch structure of thread_func (its handlers call report_error = more.report_error) and of run() (its handler "
        "calls stop_locked = more.stop_locked); the destructor ~scheduled_thread_pool (calls stop_locked)",
        "std::thread / std::mutex / std::condition_variable / barrier behaviour (environment stubs)",
        "data race on the std::vector threads_ itself (resize under one PU's mutex, operator[] under another's)",
    ],
}
