/* C19 lemmas over the guarantee / rely relations of specs/C19/state.h (no lifted code; full int8 domain, loop free).
 * These are the side conditions of the rely/guarantee argument (DESIGN 3.3 S, 3.4): each thread's steps are admissible
 * interference for the others, and the relies are closed under composition. */
#include "c19.h"
#define GUAR(o, n) (0)
#define RELY(o, n) (1)
#define STEP_HOOK(o, n) do { } while (0)
#include "state.h"
static void throws_if(struct error_code *ec, pika_error errcode) { }

void harness(void)
{
  runtime_state_t o = nondet_i8(), m = nondet_i8(), n = nondet_i8();
  if (!(VALID(o) && VALID(m) && VALID(n))) return;
  /* guarantees are sets of edges of the transition graph */
  VX_ASSERT(VX_IMPLIES(GUAR_REQUEST(o, n), GRAPH(o, n)), "requesters' steps are edges of the graph");
  VX_ASSERT(VX_IMPLIES(GUAR_WORKER(o, n), GRAPH(o, n)), "the worker's steps are edges of the graph");
  VX_ASSERT(VX_IMPLIES(GUAR_RAISE(o, n), GRAPH(o, n)), "the raisers' steps are edges of the graph");
  /* guarantee of one class is inside the rely of the classes that run concurrently with it */
  VX_ASSERT(VX_IMPLIES(GUAR_WORKER(o, n), RELY_CYCLE(o, n)), "requesters tolerate the worker's steps");
  VX_ASSERT(VX_IMPLIES(GUAR_REQUEST(o, n), RELY_CYCLE(o, n)), "requesters tolerate other requesters' steps");
  VX_ASSERT(VX_IMPLIES(GUAR_REQUEST(o, n), RELY_WORKER(o, n)), "the worker tolerates requesters' steps");
  VX_ASSERT(VX_IMPLIES(GUAR_RAISE(o, n) && (o == S_SLEEP || o == S_STOPPING), RELY_WORKER(o, n)), "a sleeping worker tolerates stop / terminate requests");
  VX_ASSERT(VX_IMPLIES(GUAR_WORKER(o, n) && o == S_INIT, 0), "the worker's hand-shake steps never start from initialized");
  /* the graph never leaves the set of values a worker's word holds; the cycle is closed under hand-shake steps */
  VX_ASSERT(VX_IMPLIES(IN_CYCLE(o) && (GUAR_REQUEST(o, n) || GUAR_WORKER(o, n)), IN_CYCLE(n)), "hand-shake steps stay on the cycle");
  /* relies are reflexive and transitive */
  VX_ASSERT(RELY_CYCLE(o, o) && RELY_WORKER(o, o) && RELY_STARTUP(o, o), "relies are reflexive");
  VX_ASSERT(VX_IMPLIES(RELY_CYCLE(o, m) && RELY_CYCLE(m, n), RELY_CYCLE(o, n)), "RELY_CYCLE is transitive");
  VX_ASSERT(VX_IMPLIES(RELY_WORKER(o, m) && RELY_WORKER(m, n), RELY_WORKER(o, n)), "RELY_WORKER is transitive");
  VX_ASSERT(VX_IMPLIES(RELY_STARTUP(o, m) && RELY_STARTUP(m, n), RELY_STARTUP(o, n)), "RELY_STARTUP is transitive");
  if (GUAR_REQUEST(o, n)) VX_REACH("request_step");
  if (GUAR_WORKER(o, n) && n == S_RUN) VX_REACH("wake_step");
  if (GUAR_RAISE(o, n) && o == S_SLEEP) VX_REACH("stop_while_sleeping");
}
