/* C19 (mutator closure of the per-worker runtime_state word) -- the guarantee / rely relations of the writers that are
 * not part of the suspend / resume hand-shake.  Macros only; included BEFORE the unit chooses GUAR / RELY and before
 * state.h (whose S_*, VALID, IN_CYCLE, GRAPH, GUAR_REQUEST, GUAR_WORKER, GUAR_RAISE, RELY_* macros are used here and
 * are expanded lazily).
 *
 * Who may take which edge of the transition graph of ONE worker's word (DESIGN C19):
 *
 *   party (functions)                                                   edges it may take
 *   ------------------------------------------------------------------  -----------------------------------------------
 *   W  the worker itself
 *      thread_func start-up (exchange(running))                         initialized -> running   (running -> running)
 *      scheduler_base::suspend (state.h GUAR_WORKER)                    pre_sleep -> sleeping, sleeping -> running
 *      scheduling_loop, last statement before it ends                   stopping -> stopped, terminating -> stopped
 *   Q  requesters: suspend_processing_unit_internal, suspend_internal   running -> pre_sleep          (GUAR_REQUEST)
 *   R  raisers: set_all_states_at_least(stopping) <- stop_locked        x -> stopping (x < stopping)  (GUAR_RAISE)
 *               set_all_states_at_least(terminating) <- report_error    x -> terminating (x < terminating)
 *               remove_processing_unit_internal (exchange(stopping))    x -> stopping (x < stopping)  (GUAR_STOPREQ)
 *   A  adder: add_processing_unit_internal (exchange(initialized))      stopped -> initialized
 *   S  starter: set_all_states(running) <- thread_manager::run          initialized -> running   (running -> running)
 *   resume (scheduler_base::resume, resume_internal, resume_processing_unit_direct) never writes the word.
 *
 * A write that leaves the word unchanged (exchange(initialized) on an initialized word, exchange(stopping) on a stopping
 * word) is a stutter, not a step: (o, o) is in every rely.
 */
#ifndef C19_MORE_REL_H
#define C19_MORE_REL_H

/* W: start-up step of the worker (thread_func) */
#define GUAR_UP(o, n) ((n) == S_RUN && ((o) == S_INIT || (o) == S_RUN))
/* W: the final step of the worker (scheduling_loop) */
#define GUAR_DOWN(o, n) ((n) == S_STOPPED && ((o) == S_STOPPING || (o) == S_TERM))
/* A: (re-)initialising a processing unit that has no worker */
#define GUAR_ADD(o, n) ((o) == S_STOPPED && (n) == S_INIT)
/* R: a stop request (remove_processing_unit_internal, stop_locked through set_all_states_at_least(stopping)) */
#define GUAR_STOPREQ(o, n) ((n) == S_STOPPING && VALID(o) && (o) < S_STOPPING)
/* R: a terminate request (report_error through set_all_states_at_least(terminating)) */
#define GUAR_TERMREQ(o, n) ((n) == S_TERM && VALID(o) && (o) < S_TERM)
/* S: set_all_states(running) at start-up */
#define GUAR_START(o, n) ((n) == S_RUN && ((o) == S_INIT || (o) == S_RUN))

/* values of the word of a worker that is up and executing its scheduling loop (not inside scheduler_base::suspend) */
#define AWAKE(s) ((s) == S_RUN || (s) == S_PRE || (s) == S_STOPPING || (s) == S_TERM)
/* rely of the worker while it executes its scheduling loop: requesters ask it to sleep, raisers ask it to stop /
 * terminate.  (terminating -> stopping is the transient lowering of remove_processing_unit_internal -- observation O2 --;
 * it is tolerated here so that the loop units do not depend on O2 being repaired.) */
#define RELY_AWAKE(o, n) ((n) == (o) || ((o) == S_RUN && (n) == S_PRE) || (AWAKE(o) && ((n) == S_STOPPING || (n) == S_TERM)))
/* rely of a party that works on a processing unit WITHOUT a worker thread (adder, under the PU mutex): nobody else
 * writes the word (no pool-wide stop / terminate concurrently: META assumptions) */
#define RELY_NONE(o, n) ((n) == (o))
/* rely of a party that runs concurrently with a live worker and with every other party except the adder (remover, stop):
 * everything reachable in the graph without re-initialisation */
#define RELY_LIVE(o, n) ((n) == (o) || (o) == S_INIT || (IN_CYCLE(o) && (n) != S_INIT) || \
                         ((o) == S_STOPPING && ((n) == S_TERM || (n) == S_STOPPED)) || ((o) == S_TERM && (n) == S_STOPPED))
#endif
