/* C19 (stop hand-shake) lemmas over RELY_QUIET (stop_rel.h) and the relations of state.h / more_rel.h (no lifted code; full
 * int8 domain, loop free): side conditions of stop.stop_locked_wake's rely, and the word-level shape of finding O3. */
#include "c19.h"
#include "more_rel.h"
#include "stop_rel.h"
#define GUAR(o, n) (0)
#define RELY(o, n) (1)
#define STEP_HOOK(o, n) do { } while (0)
#include "state.h"
static void throws_if(struct error_code *ec, pika_error errcode) { }

/* the words of a pool whose workers are up and on which no suspension request is in flight */
#define QUIET(s) ((s) == S_RUN || (s) == S_SLEEP || (s) == S_STOPPING || (s) == S_TERM || (s) == S_STOPPED)

void harness(void)
{
  runtime_state_t o = nondet_i8(), m = nondet_i8(), n = nondet_i8();
  if (!(VALID(o) && VALID(m) && VALID(n))) return;
  /* RELY_QUIET is a rely: reflexive, transitive, made of paths of the transition graph, inside the general rely RELY_LIVE */
  VX_ASSERT(RELY_QUIET(o, o), "RELY_QUIET is reflexive");
  VX_ASSERT(VX_IMPLIES(RELY_QUIET(o, m) && RELY_QUIET(m, n), RELY_QUIET(o, n)), "RELY_QUIET is transitive");
  VX_ASSERT(VX_IMPLIES(RELY_QUIET(o, n), RELY_LIVE(o, n)), "RELY_QUIET is inside RELY_LIVE");
  VX_ASSERT(VX_IMPLIES(RELY_QUIET(o, n) && QUIET(o), QUIET(n)), "the quiet words are closed under RELY_QUIET");
  /* it contains the steps of every party that runs concurrently with stop_locked under A-STOP-QUIET */
  VX_ASSERT(VX_IMPLIES(GUAR_WORKER(o, n) && o == S_SLEEP, RELY_QUIET(o, n)), "a notified worker wakes up (sleeping -> running)");
  VX_ASSERT(VX_IMPLIES(GUAR_DOWN(o, n), RELY_QUIET(o, n)), "a worker finishes (stopping | terminating -> stopped)");
  VX_ASSERT(VX_IMPLIES(GUAR_STOPREQ(o, n) && QUIET(o), RELY_QUIET(o, n)), "another stop request (remove_processing_unit_internal, a second stop)");
  VX_ASSERT(VX_IMPLIES(GUAR_TERMREQ(o, n) && QUIET(o), RELY_QUIET(o, n)), "a terminate request (report_error of a dying worker)");
  /* ... and none of the suspension hand-shake: that is the assumption */
  VX_ASSERT(VX_IMPLIES(RELY_QUIET(o, n), !GUAR_REQUEST(o, n)), "no suspension request in RELY_QUIET");
  VX_ASSERT(VX_IMPLIES(RELY_QUIET(o, n) && n != o, n != S_PRE && n != S_SLEEP), "nobody goes (back) to sleep under RELY_QUIET");
  /* consequence used by stop.stop_locked_wake: once resume_internal(blocking) has seen a worker not `sleeping`, the raise finds it awake */
  VX_ASSERT(VX_IMPLIES(QUIET(o) && o != S_SLEEP && RELY_QUIET(o, n), n != S_SLEEP && n != S_PRE), "an awake worker stays awake until the raise");
  /* without the assumption it does not: the general rely lets a running worker be suspended again */
  if (o == S_RUN && RELY_LIVE(o, n) && n == S_SLEEP) VX_REACH("with_a_suspension_in_flight_a_worker_seen_awake_can_be_asleep_at_the_raise");
  /* word-level shape of finding O3: the raise on a sleeping worker is in the raisers' guarantee AND in the sleeping worker's
   * rely (so scheduler_base::suspend must cope with it), and afterwards the word no longer says that the worker is asleep:
   * resume_processing_unit_direct's loop condition `state == sleeping` is false, it stops notifying */
  VX_ASSERT(GUAR_STOPREQ(S_SLEEP, S_STOPPING) && RELY_WORKER(S_SLEEP, S_STOPPING), "a stop request on a sleeping worker is a legal step that the worker must tolerate");
  VX_ASSERT(GUAR_TERMREQ(S_SLEEP, S_TERM) && RELY_WORKER(S_SLEEP, S_TERM), "a terminate request on a sleeping worker is a legal step that the worker must tolerate");
  if (GUAR_STOPREQ(o, n) && o == S_SLEEP) VX_REACH("stop_request_hides_that_the_worker_is_asleep");
  if (RELY_QUIET(o, n) && o == S_SLEEP && n == S_RUN) VX_REACH("wake_step");
  if (RELY_QUIET(o, n) && o == S_RUN && n == S_TERM) VX_REACH("terminate_step");
}
