/* C19 (stop hand-shake, worker side) -- scheduler_base::suspend as a MONITOR question: at the moment the worker gives up
 * its OS thread (blocks on suspend_conds_[i] with suspend_mtxs_[i]), can a stop / terminate request already be standing
 * on its word?  If so the request is slept through: every party that moves the word away from `sleeping` other than the
 * worker itself (stop_locked and report_error through set_all_states_at_least, remove_processing_unit_internal) does so
 * WITHOUT holding suspend_mtxs_[i] (census `suspend_mtxs_ sites`: the mutex is locked in suspend() only) and notifies
 * suspend_conds_[i] only BEFORE its step or not at all (stop.stop_locked_wake: reach
 * non_blocking_raise_on_sleeping_worker_notified_only_before_the_raise), and resume_processing_unit_direct stops
 * re-notifying as soon as the word is not `sleeping` (state.resume_pu_direct).
 *
 * M contract (DESIGN 3.3: cv_wait has the precondition "caller may block"): an UNBOUNDED block (condition_variable::wait
 * without time-out) is entered only while the word is still `sleeping`; the environment acts (interfere, rely RELY_WORKER:
 * requesters, raisers) between the worker's last access of its word and the block, because the mutex it holds excludes
 * nobody who writes the word.  A time-bounded block (wait_for / wait_until) has no such precondition.
 * Same word model / victim abstraction as state.c (state.h).  S obligations of state.sched_suspend are kept.
 */
#include "c19.h"

#define GUAR(o, n) GUAR_WORKER(o, n)
#define RELY(o, n) RELY_WORKER(o, n)
#define STEP_HOOK(o, n) do { } while (0)
#define OTHER_VALID(n) ((n) == S_SLEEP || (n) == S_STOPPING || (n) == S_TERM)
static void block_point(void);
#define CV_WAIT_HOOK(c) do { if ((c) == &g_v_cond) block_point(); } while (0)
#include "state.h"

static long g_blocks_unbounded;         /* condition_variable::wait calls of the victim worker (saturating at 2) */
static long g_blocks_timed;             /* wait_for / wait_until calls of the victim worker (saturating at 2) */
static bool g_raised_before_block;      /* the word had left `sleeping` when an unbounded block was entered */
static void block_point(void)
{
  VX_ASSERT(lin_count == 1 && lin_new == S_SLEEP, "the worker blocks only after it has published `sleeping`");
  VX_ASSERT(g_v_susp_mtx.held == 1 && g_v_pu_mtx.held == 0 && g_o_pu_mtx.held == 0, "the worker blocks holding its suspend mutex and no PU mutex");
#ifndef KNOWN_RAISE_BEFORE_BLOCK
  /* environment step: suspend_mtxs_[i] excludes no writer of the word */
  interfere(&g_v_state);
#endif
  if (g_v_state != S_SLEEP) g_raised_before_block = true;
  if (g_blocks_unbounded < 2) g_blocks_unbounded++;
  VX_ASSERT(g_v_state == S_SLEEP, "the worker enters an unbounded block (wait without time-out) only while its word is still `sleeping`: "
                                   "a stop / terminate request that already stands on the word is followed by no notification, the worker "
                                   "sleeps through it and is never joined");
}

/* (c19.h's PIKA_THROWS_IF lowering refers to it; suspend() itself never throws) */
static void throws_if(struct error_code *ec, pika_error errcode)
//@LIFT throws_if

/* std::cv_status, std::chrono durations (only their spelling is needed) */
enum { cv_status_no_timeout = 0, cv_status_timeout = 1 };
static long chrono_milliseconds(long n) { return n; }
static long chrono_microseconds(long n) { return n; }
static long chrono_seconds(long n) { return n; }
/* wait_for(l, d): releases l, blocks for at most d, re-acquires l; returns timeout or no_timeout (notified / spurious) */
static int cv_wait_for(struct vx_cv *c, struct ulock *l, long d)
{
  VX_ASSERT(l->owns, "condition_variable::wait_for needs the lock to be owned");
  VX_ASSERT((c == &g_v_cond) ? l->m == MTX_SUSP_V : l->m == MTX_SUSP_O, "a worker waits on its own condition variable with its own suspend mutex");
  VX_ASSERT(d >= 0, "a time-bounded wait has a non-negative bound");
  if (c == &g_v_cond)
  {
    VX_ASSERT(lin_count == 1 && lin_new == S_SLEEP, "the worker blocks only after it has published `sleeping`");
    if (g_blocks_timed < 2) g_blocks_timed++;
  }
  if (g_waits < 2) g_waits++;
  mtx_release(l->m);
  mtx_acquired(l->m);
  return nondet_bool() ? cv_status_timeout : cv_status_no_timeout;
}

#define GHOST_ZERO (lin_count == 0 && g_reads == 0 && !g_interfered && g_yields == 0 && g_refusals == 0 && !vx_exc && \
                    g_v_notifies == 0 && g_o_notifies == 0 && g_waits == 0 && !g_join_seen && NO_LOCKS_HELD && \
                    g_blocks_unbounded == 0 && g_blocks_timed == 0 && !g_raised_before_block)
#define SL_FRAME g_v_state, g_o_state, g_v_joinable, lin_count, lin_old, lin_new, lin_first_old, lin_first_new, g_last_read, \
                 g_reads, g_interfered, g_v_pu_mtx, g_o_pu_mtx, g_v_susp_mtx, g_o_susp_mtx, g_v_notifies, g_o_notifies, g_waits, \
                 g_blocks_unbounded, g_blocks_timed, g_raised_before_block
/* invariant of a polling loop inside suspend() (present only in a repaired tree; attached by rule POLL_LOOP) */
#define SL_LOOP_INV (l.owns && !g_raised_before_block && VALID(g_v_state) && g_reads >= 0 && g_reads <= 2 && g_waits >= 0 && g_waits <= 2 && \
                     g_blocks_timed >= 0 && g_blocks_timed <= 2 && g_blocks_unbounded >= 0 && g_blocks_unbounded <= 2 && \
                     g_v_pu_mtx.held == 0 && g_o_pu_mtx.held == 0 && \
                     (num_thread == g_v ? (l.m == MTX_SUSP_V && g_v_susp_mtx.held == 1 && g_o_susp_mtx.held == 0 && lin_count == 1 && \
                                           lin_new == S_SLEEP && lin_first_old == S_PRE && lin_first_new == S_SLEEP && \
                                           (g_v_state == S_SLEEP || g_v_state == S_STOPPING || g_v_state == S_TERM)) \
                                        : (l.m == MTX_SUSP_O && g_v_susp_mtx.held == 0 && g_o_susp_mtx.held == 1 && lin_count == 0 && \
                                           g_blocks_timed == 0 && g_blocks_unbounded == 0)))

//@FUNC
void sched_suspend(struct scheduler *self, size_t num_thread)
__CPROVER_requires(self == vx_pool->sched_ && g_v < self->n && VALID(g_v_state) && GHOST_ZERO && num_thread < self->n)
/* the only caller (scheduling loop) has just seen its own word in pre_sleep */
__CPROVER_requires(num_thread == g_v ==> g_v_state == S_PRE)
__CPROVER_ensures(num_thread != g_v ==> (lin_count == 0 && g_blocks_unbounded == 0 && g_blocks_timed == 0))
/* (kept from state.sched_suspend) `sleeping` is published first; `running` is set only from `sleeping`; a request that
 * arrived meanwhile is left standing */
__CPROVER_ensures(num_thread == g_v ==> (lin_count >= 1 && lin_count <= 2 && lin_first_old == S_PRE && lin_first_new == S_SLEEP))
__CPROVER_ensures((num_thread == g_v && lin_count == 2) ==> (lin_old == S_SLEEP && lin_new == S_RUN))
__CPROVER_ensures((num_thread == g_v && lin_count == 1) ==> (g_last_read == S_STOPPING || g_last_read == S_TERM))
/* the worker never went into an unbounded block with a request already standing on its word */
__CPROVER_ensures(!g_raised_before_block)
__CPROVER_ensures(g_v_susp_mtx.held == 0 && g_o_susp_mtx.held == 0 && g_v_pu_mtx.held == 0 && g_o_pu_mtx.held == 0)
__CPROVER_assigns(SL_FRAME)
//@LIFT body

void harness(void)
{
  struct pool p;
  struct scheduler s;
  s.n = nondet_size();
  s.mode_ = nondet_u32();
  p.sched_ = &s;
  p.threads_size = nondet_size();
  vx_pool = &p;
  g_v = nondet_size();
  g_v_state = nondet_i8();
  g_v_joinable = nondet_bool();
  lin_count = 0; g_reads = 0; g_interfered = false; g_yields = 0; g_refusals = 0; vx_exc = false; g_v_notifies = 0; g_o_notifies = 0;
  g_waits = 0; g_join_seen = false; g_v_pu_mtx.held = 0; g_o_pu_mtx.held = 0; g_v_susp_mtx.held = 0; g_o_susp_mtx.held = 0;
  g_blocks_unbounded = 0; g_blocks_timed = 0; g_raised_before_block = false;
  size_t core = nondet_size();
  sched_suspend(&s, core);
  if (core == g_v && lin_count == 2) VX_REACH("woke_up_running");
  if (core == g_v && lin_count == 1 && g_last_read == S_STOPPING) VX_REACH("woke_up_stopping");
  if (core == g_v && lin_count == 1 && g_last_read == S_TERM) VX_REACH("woke_up_terminating");
  if (core == g_v && g_blocks_unbounded + g_blocks_timed >= 1) VX_REACH("blocked");
  if (core != g_v) VX_REACH("other_worker");
}
