/* C19 -- ONE ITERATION of scheduling_loop() (scheduling_loop.hpp), T / S contract: WHEN does a worker that was told to
 * suspend actually suspend, when does it leave the loop, when does it go on.
 *
 * Lifted text: the complete body of the `while (true)` loop of scheduling_loop(), i.e.
 *     thrd = move(next_thrd); running = this_state.load() < pre_sleep; enable_stealing...;
 *     if (thrd || get_next_thread(...)) { <execute the thread> }                  <-- cut, see below
 *     else { ++idle_loop_count; if (wait_or_add_new(...)) { can_exit...; pre_sleep branch / may_exit branch } inner callback }
 *     custom polling; terminating check; busy / idle bookkeeping; outer callback; second can_exit block (store stopped; break)
 * The thread-execution branch (about 200 lines: switch_status, the coroutine call, re-scheduling) is NOT under this contract:
 * rule CutThen (loop_spec.py) replaces the block by `{ vx_found_thread(); return; }` -- the unit decides iterations in which no
 * thread was found, and for the others only that nothing was done to the word and no suspend() happened BEFORE the branch.
 *
 * What the contract says (property C19: "suspending a processing unit ... the calls themselves return; work queued on a suspended
 * worker is executed either by other workers of the pool or after the worker is resumed"):
 *   E1  suspend(num_thread) is called at most once per iteration, for the worker itself, and only with this evidence at the moment
 *       of the call: its word was last seen in pre_sleep (a request is standing), get_next_thread found nothing, wait_or_add_new
 *       said "nothing added", the most recent complete clean-up of its terminated list succeeded and its queue length (pending +
 *       staged) was last seen 0: it does not suspend while it still has runnable work.
 *   E3  conversely: word pre_sleep when the iteration starts, no stop / terminate request arriving before the decision, no thread
 *       found, every answer of the scheduler says "nothing runnable" (wait_or_add_new true, clean-ups complete, queue lengths 0)
 *       ==> suspend(num_thread) IS called in this very iteration -- WHATEVER get_thread_count(suspended) would answer: blocked
 *       tasks cannot be waited for (their wake-up may need the suspend call to have returned).
 *   E5  the loop is left only (a) by the worker's final step stopping|terminating -> stopped, made with FRESH evidence that nothing
 *       is left (evidence gathered before a sleep is stale): complete clean-up, no suspended (blocked) threads, queue length 0 --
 *       the shutdown path, unlike the suspend path, does wait for blocked tasks -- immediately followed by `break` with no further
 *       access to the word, or (b) on a terminate request read from the word (error path; the word is left alone).
 *       In particular after suspend() returns the worker goes on unless its word says stopping / terminating.
 *   J   otherwise the loop goes on and hands over  J1 AWAKE(word)  and  J2 may_exit ==> word is stopping | terminating.
 * Unit loop.prologue (U_PROLOGUE) lifts the statements in front of the loop: base case of J, and this_state IS the word of the
 * worker that runs the loop (get_state(num_thread)).  Unit loop.iteration (U_ITERATION) is the iteration itself.
 */
#include "c19.h"
#include "more_rel.h"

/* ---- ghost records of this iteration (declared before state.h: the hooks below use them) ---- */
static size_t g_num_thread;             /* the worker running the loop */
static bool g_found;                    /* the thread-execution branch was taken (iteration cut there) */
static long g_gnt_calls, g_wait_calls, g_cleanup_calls, g_qlen_calls, g_cnt_calls, g_suspend_calls, g_inner_calls, g_outer_calls;
static bool g_gnt_result;               /* last result of get_next_thread(num_thread, ...) */
static bool g_wait_result;              /* last result of wait_or_add_new(num_thread, ...) */
static bool g_cleaned;                  /* most recent clean-up covering this worker was complete (delete_all, returned true) */
static int64_t g_qlen_seen;             /* most recent get_queue_length(num_thread) (-1: not asked / stale) */
static int64_t g_susp_seen;             /* most recent get_thread_count(suspended, default_, num_thread) (-1: not asked / stale) */
static bool g_all_wait, g_all_clean, g_all_empty;   /* sticky: EVERY answer of that kind in this iteration said "nothing to do" */
static bool g_intf_pre;                 /* the word was seen changed by somebody else before the (first) suspend call */
static bool g_broke;                    /* `break`: the scheduling loop is left */
static bool g_may_exit0;
static runtime_state_t g_entry_state;

#define GUAR(o, n) GUAR_DOWN(o, n)      /* the only own step of the loop: stopping | terminating -> stopped */
#define RELY(o, n) RELY_AWAKE(o, n)     /* requesters ask the worker to sleep, raisers ask it to stop / terminate */
#define STEP_HOOK(o, n) do { \
    VX_ASSERT(g_cleanup_calls >= 1 && g_cleaned, "the worker leaves the loop only after a complete clean-up of terminated threads (fresh: after its last sleep)"); \
    VX_ASSERT(g_cnt_calls >= 1 && g_susp_seen == 0, "shutdown path: the worker leaves the loop only when no suspended (blocked) thread is left on it (terminate only when nothing is left)"); \
    VX_ASSERT(g_qlen_calls >= 1 && g_qlen_seen == 0, "the worker leaves the loop only when its queues were seen empty AFTER the last callback / polling call of this iteration (fresh evidence: work may have been queued meanwhile)"); \
    VX_ASSERT(!g_found, "no final step in an iteration that found a thread to run"); \
  } while (0)
#define READ_HOOK() do { if (lin_count >= 1) g_after_step = true; if (g_suspend_calls == 0 && g_interfered) g_intf_pre = true; } while (0)
#include "more_state.h"

static void throws_if(struct error_code *ec, pika_error errcode)
//@LIFT throws_if

#define J1 AWAKE(g_v_state)
#define J2 (!may_exit || g_v_state == S_STOPPING || g_v_state == S_TERM)

/* ---- loop state: locals of scheduling_loop() that live across iterations (free variables of the loop body) ---- */
typedef int thread_id_ref_type;         /* only emptiness is observed (operator bool): 0 = empty */
static int64_t idle_loop_count, busy_loop_count, params_max_idle_loop_count, params_max_busy_loop_count;
static size_t added;
static bool may_exit;
static thread_id_ref_type next_thrd;
static runtime_state_t *vx_ref_this_state;   /* std::atomic<runtime_state>& this_state = scheduler.get_state(num_thread) */
static int context_storage;
enum { thread_schedule_state_suspended = 3, thread_priority_default = 0 };

/* ---- environment: callbacks and SchedulingPolicy callees (T stubs: arbitrary answers, ghost records) ---- */
static bool inner_empty(void) { return nondet_bool(); }
/* the callbacks into the invoking context (scheduler_base::idle_callback backs off for milliseconds) and the custom polling
 * function (MPI / CUDA polling completes requests and SCHEDULES their continuations) let arbitrary time pass and may put work on this
 * worker's queue: what the worker knew about its queues before them is stale (added after seeded change C05-7 was missed) */
static void inner_call(void) { if (g_inner_calls < 2) g_inner_calls++; g_qlen_seen = -1; }
static bool outer_empty(void) { return nondet_bool(); }
static void outer_call(void) { if (g_outer_calls < 2) g_outer_calls++; g_qlen_seen = -1; }
static int get_agent_storage(void) { return nondet_int(); }
static bool custom_polling_busy(void) { g_qlen_seen = -1; return nondet_bool(); }
/* the scheduler mode is stable during one iteration; the enable_stealing bit is what static policies clear (C10: a non-stealing policy
 * never moves a hinted task) -- the loop may ask the policy to steal (pending or staged tasks) only when the bit is set
 * (added after seeded change C10-8 was missed) */
static bool g_mode_stealing;
static bool sp_has_scheduler_mode(scheduler_mode_t mode) { return mode == scheduler_mode_enable_stealing ? g_mode_stealing : nondet_bool(); }
/* the block that executes the thread that was found: outside this unit (CutThen) */
static void vx_found_thread(void) { g_found = true; }
static bool sp_get_next_thread(size_t num_thread, bool running, thread_id_ref_type *thrd, bool enable_stealing)
{
  VX_ASSERT(num_thread == g_num_thread, "get_next_thread: asked for this worker");
  VX_ASSERT(!enable_stealing || g_mode_stealing, "get_next_thread is allowed to steal only if the scheduler mode has enable_stealing");
  if (g_gnt_calls < 2) g_gnt_calls++;
  g_gnt_result = nondet_bool();
  if (g_gnt_result) *thrd = 1;
  return g_gnt_result;
}
static bool sp_wait_or_add_new(size_t num_thread, bool running, int64_t *idle, bool enable_stealing, size_t *added_p)
{
  VX_ASSERT(num_thread == g_num_thread, "wait_or_add_new: asked about this worker");
  VX_ASSERT(!enable_stealing || g_mode_stealing, "wait_or_add_new is allowed to convert OTHER workers' staged tasks only if the scheduler mode has enable_stealing (static policies clear it)");
  if (g_wait_calls < 2) g_wait_calls++;
  *added_p = nondet_size();
  g_wait_result = nondet_bool();     /* true: nothing was added, nothing left to convert */
  if (!g_wait_result) g_all_wait = false;
  return g_wait_result;
}
/* cleanup_terminated(num_thread, delete_all): true = the terminated list is empty afterwards; only a complete clean-up
 * (delete_all) of THIS worker's list is evidence */
static bool sp_cleanup_terminated(size_t num_thread, bool delete_all)
{
  bool covers = (num_thread == g_num_thread);
  if (g_cleanup_calls < 2) g_cleanup_calls++;
  bool r = nondet_bool();
  if (covers) { g_cleaned = r && delete_all; if (!r) g_all_clean = false; }
  return r;
}
/* cleanup_terminated(delete_all): all queues, this worker's included */
static bool sp_cleanup_terminated_all(bool delete_all)
{
  if (g_cleanup_calls < 2) g_cleanup_calls++;
  bool r = nondet_bool();
  g_cleaned = r && delete_all;
  if (!r) g_all_clean = false;
  return r;
}
static int64_t sp_get_queue_length(size_t num_thread)
{
  int64_t r = nondet_i64();
  VX_ASSUME(r >= 0); /* a queue length */
  if (g_qlen_calls < 2) g_qlen_calls++;
  /* the length of another worker's queue says nothing about this worker's queues */
  if (num_thread == g_num_thread) { g_qlen_seen = r; if (r != 0) g_all_empty = false; } else g_qlen_seen = -1;
  return r;
}
static int64_t sp_get_thread_count(int state, int priority, size_t num_thread)
{
  int64_t r = nondet_i64();
  VX_ASSUME(r >= 0); /* a thread count */
  if (g_cnt_calls < 2) g_cnt_calls++;
  g_susp_seen = (num_thread == g_num_thread && state == thread_schedule_state_suspended && priority == thread_priority_default) ? r : -1;
  return r;
}
/* scheduler_base::suspend(num_thread) -- contract proved by state.sched_suspend: the worker publishes pre_sleep -> sleeping,
 * blocks, and after waking steps sleeping -> running only from sleeping: at return the word is `running` or a stop / terminate
 * request is standing.  What the worker knew about its queues before it slept is stale afterwards. */
static void sp_suspend(size_t num_thread)
{
  VX_ASSERT(num_thread == g_num_thread, "the worker suspends itself, not another worker");
  VX_ASSERT(g_suspend_calls == 0, "the worker goes to sleep at most once per iteration");
  VX_ASSERT(g_reads >= 1 && g_last_read == S_PRE, "the worker goes to sleep only when it has last seen its word in pre_sleep (a suspension was requested)");
  VX_ASSERT(!g_found && g_gnt_calls >= 1 && !g_gnt_result, "the worker does not go to sleep while it has runnable work: get_next_thread found nothing");
  VX_ASSERT(g_wait_calls >= 1 && g_wait_result, "the worker does not go to sleep while it has runnable work: wait_or_add_new reported nothing added");
  VX_ASSERT(g_cleanup_calls >= 1 && g_cleaned, "the worker goes to sleep only after its terminated threads have been cleaned up");
  VX_ASSERT(g_qlen_calls >= 1 && g_qlen_seen == 0, "the worker goes to sleep only if its queues were seen empty: nothing is queued on a worker at the moment it sleeps");
  VX_ASSERT(lin_count == 0, "no sleep after the final step");
  if (g_suspend_calls < 2) g_suspend_calls++;
  runtime_state_t n = nondet_i8();
  VX_ASSUME(n == S_RUN || n == S_STOPPING || n == S_TERM); /* postcondition of state.sched_suspend (woke_up_running / _stopping / _terminating) */
  g_v_state = n;
  g_cleaned = false; g_qlen_seen = -1; g_susp_seen = -1;   /* stale */
}

#define LI_GHOST_ZERO (!g_found && g_gnt_calls == 0 && g_wait_calls == 0 && g_cleanup_calls == 0 && g_qlen_calls == 0 && g_cnt_calls == 0 && \
                       g_suspend_calls == 0 && g_inner_calls == 0 && g_outer_calls == 0 && !g_gnt_result && !g_wait_result && !g_cleaned && \
                       g_qlen_seen == -1 && g_susp_seen == -1 && g_all_wait && g_all_clean && g_all_empty && !g_intf_pre && !g_broke && \
                       lin_count == 0 && g_reads == 0 && !g_interfered && !g_after_step && g_stutters == 0 && !g_exchanged)
#define LI_FRAME idle_loop_count, busy_loop_count, added, may_exit, next_thrd, context_storage, g_found, g_gnt_calls, g_wait_calls, \
                 g_cleanup_calls, g_qlen_calls, g_cnt_calls, g_suspend_calls, g_inner_calls, g_outer_calls, g_gnt_result, g_wait_result, \
                 g_cleaned, g_qlen_seen, g_susp_seen, g_all_wait, g_all_clean, g_all_empty, g_intf_pre, g_broke, \
                 g_v_state, g_o_state, lin_count, lin_old, lin_new, lin_first_old, lin_first_new, g_last_read, g_reads, \
                 g_interfered, g_after_step, g_stutters, g_exchanged

/* every answer of the environment in this iteration said: nothing runnable, nobody interfered before the decision */
#define NOTHING_RUNNABLE (!g_found && g_all_wait && g_all_clean && g_all_empty)

#ifdef U_ITERATION
//@FUNC
void loop_iteration(size_t num_thread)
__CPROVER_requires(num_thread == g_num_thread && num_thread == g_v && vx_ref_this_state == &g_v_state && LI_GHOST_ZERO)
__CPROVER_requires(may_exit == g_may_exit0 && g_v_state == g_entry_state && J1 && J2)
/* counters: idle_loop_count is reset whenever it exceeds max_idle_loop_count_; it cannot reach 2^63 - 1 (assumption) */
__CPROVER_requires(idle_loop_count >= 0 && idle_loop_count < INT64_MAX && busy_loop_count >= 0)
/* E1 (the evidence itself is asserted at the moment of the call, in sp_suspend) */
__CPROVER_ensures(g_suspend_calls <= 1)
__CPROVER_ensures(g_found ==> (g_suspend_calls == 0 && lin_count == 0 && !g_broke))
/* E3: told to suspend, nothing runnable ==> suspends in this iteration, regardless of blocked (suspended) threads */
__CPROVER_ensures((g_entry_state == S_PRE && !g_intf_pre && NOTHING_RUNNABLE) ==> g_suspend_calls == 1)
/* E5: leaving the loop */
__CPROVER_ensures(lin_count <= 1 && (lin_count == 1 ==> (GUAR_DOWN(lin_old, lin_new) && g_broke && !g_after_step && g_v_state == S_STOPPED)))
__CPROVER_ensures((g_broke && lin_count == 0) ==> (g_reads >= 1 && g_last_read == S_TERM))
/* in particular: a worker that slept in this iteration goes on unless its word says stopping / terminating */
__CPROVER_ensures((g_suspend_calls == 1 && g_broke) ==> ((lin_count == 1 && lin_old >= S_STOPPING) || g_last_read == S_TERM))
/* J: otherwise the loop goes on with its invariant */
__CPROVER_ensures(!g_broke ==> (J1 && J2))
__CPROVER_assigns(LI_FRAME)
//@LIFT body
#endif

#ifdef U_PROLOGUE
/* ---- the statements of scheduling_loop() in front of its loop: they bind this_state to the word of THIS worker and
 *      establish the loop invariant (base case) ---- */
static long g_get_state_calls;
static size_t g_get_state_arg;
/* scheduler.get_state(num_thread) (scheduler_base::get_state, lifted in state.*: returns states_[num_thread]) */
static runtime_state_t *sched_get_state(size_t num_thread)
{
  if (g_get_state_calls < 2) g_get_state_calls++;
  g_get_state_arg = num_thread;
  return num_thread == g_v ? &g_v_state : &g_o_state;
}
/* `std::int64_t& idle_loop_count = counters.idle_loop_count_;`: the local is another name for the counter the template declares */
#define counters_idle_loop_count_ idle_loop_count
#define counters_busy_loop_count_ busy_loop_count
#define VX_ALIAS(local, field) VX_ASSERT(&(local) == &(field), "the loop's counter reference is bound to the counter of the same name")

//@FUNC
void loop_prologue(size_t num_thread)
__CPROVER_requires(num_thread == g_num_thread && num_thread == g_v && g_get_state_calls == 0 && lin_count == 0 && g_reads == 0 && J1)
/* the loop works on the word of the worker that runs it, has written nothing, and starts with its invariant */
__CPROVER_ensures(vx_ref_this_state == &g_v_state && g_get_state_calls == 1 && g_get_state_arg == num_thread)
__CPROVER_ensures(lin_count == 0 && J1 && J2)
/* no thread is carried into the first iteration: the worker starts by asking the scheduler */
__CPROVER_ensures(next_thrd == 0)
__CPROVER_assigns(vx_ref_this_state, may_exit, added, next_thrd, context_storage, g_get_state_calls, g_get_state_arg, g_v_state, g_o_state,
                  lin_count, lin_old, lin_new, lin_first_old, lin_first_new, g_last_read, g_reads, g_interfered, g_intf_pre, g_after_step)
//@LIFT prologue
#endif

void harness(void)
{
  g_num_thread = nondet_size();
  g_v = g_num_thread;
  g_v_state = nondet_i8();
  g_entry_state = g_v_state;
  vx_ref_this_state = &g_v_state;
  idle_loop_count = nondet_i64();
  busy_loop_count = nondet_i64();
  params_max_idle_loop_count = nondet_i64();
  params_max_busy_loop_count = nondet_i64();
  added = nondet_size();
  may_exit = nondet_bool();
  g_may_exit0 = may_exit;
  next_thrd = nondet_int();
  context_storage = 0;
  g_found = false; g_gnt_result = false; g_wait_result = false; g_cleaned = false; g_qlen_seen = -1; g_susp_seen = -1;
  g_all_wait = true; g_all_clean = true; g_all_empty = true; g_intf_pre = false; g_broke = false;
  g_gnt_calls = 0; g_wait_calls = 0; g_cleanup_calls = 0; g_qlen_calls = 0; g_cnt_calls = 0; g_suspend_calls = 0;
  g_inner_calls = 0; g_outer_calls = 0; g_mode_stealing = nondet_bool();
  lin_count = 0; g_reads = 0; g_interfered = false; g_after_step = false; g_stutters = 0; g_exchanged = false;
#ifdef U_PROLOGUE
  may_exit = nondet_bool();
  next_thrd = nondet_int();
  vx_ref_this_state = &g_o_state;
  g_get_state_calls = 0; g_get_state_arg = 0;
  loop_prologue(g_num_thread);
  if (g_v_state == S_RUN) VX_REACH("enters_the_loop_running");
  if (g_v_state == S_STOPPING) VX_REACH("enters_the_loop_with_a_stop_request_standing");
#endif
#ifdef U_ITERATION
  int64_t idle0 = idle_loop_count;
  loop_iteration(g_num_thread);
  if (g_found) VX_REACH("found_a_thread");
  if (g_suspend_calls == 1 && g_v_state == S_RUN && !g_broke) VX_REACH("slept_resumed_goes_on");
  if (g_suspend_calls == 1 && g_v_state == S_STOPPING && !g_broke) VX_REACH("slept_woke_up_stopping_goes_on");
  if (g_suspend_calls == 1 && g_broke) VX_REACH("slept_woke_up_terminating_leaves");
  if (g_entry_state == S_PRE && g_suspend_calls == 0 && !g_found && g_wait_calls == 1 && g_wait_result && g_qlen_calls >= 1 && !g_all_empty) VX_REACH("asked_but_queue_not_empty_stays_awake");
  if (g_entry_state == S_PRE && g_suspend_calls == 0 && !g_found && g_wait_calls == 1 && !g_wait_result) VX_REACH("asked_but_work_was_added_stays_awake");
  if (g_entry_state == S_RUN && g_suspend_calls == 0 && !g_found && g_intf_pre && g_last_read == S_PRE && NOTHING_RUNNABLE) VX_REACH("request_arrived_mid_iteration_sleeps_next_time");
  if (g_entry_state == S_PRE && g_intf_pre && g_suspend_calls == 0 && NOTHING_RUNNABLE) VX_REACH("stop_request_overtook_the_suspend_request");
  if (lin_count == 1 && lin_old == S_STOPPING) VX_REACH("left_stopped_after_stop_request");
  if (lin_count == 1 && lin_old == S_TERM) VX_REACH("left_stopped_after_terminate_request");
  if (g_broke && lin_count == 0) VX_REACH("left_on_terminate_request");
  if (!g_broke && g_entry_state == S_STOPPING && NOTHING_RUNNABLE && g_cnt_calls >= 1 && g_susp_seen > 0) VX_REACH("stop_waits_for_blocked_threads");
  if (!g_broke && may_exit && !g_may_exit0) VX_REACH("may_exit_raised_kept_for_next_iteration");
  if (!g_broke && g_may_exit0 && !may_exit) VX_REACH("may_exit_withdrawn");
  if (!g_broke && !g_found && g_wait_calls == 1 && idle_loop_count == idle0 + 1) VX_REACH("idle_count_advanced");
  if (!g_broke && g_outer_calls == 1 && !may_exit && !g_may_exit0) VX_REACH("idle_callback");
#endif
}
