/* C19 (idle back-off) -- scheduler_base::idle_callback / scheduler_base::do_some_work: the condition variable `cond_`
 * (with `mtx_`) on which an idle worker backs off.  Relevant to C19 because a worker that sleeps here does not look at any
 * queue: work is "executed by other workers ... tasks continue to complete on the remaining workers" only if this sleep is
 * (a) time-bounded and (b) ended by do_some_work (called after every schedule_thread and by stop_locked).
 *
 * M / T contract.  `mtx_` protects NO data (idle_callback takes it only because condition_variable::wait_for needs a lock;
 * do_some_work notifies without it): there is no monitor invariant to keep, and a notification that arrives between the
 * worker's decision to back off and its wait_for is missed -- harmless only because the wait is time-bounded, which is
 * therefore THE obligation here: every block of idle_callback is a wait_for whose period is at most
 * max_idle_backoff_time_ (+ rounding), never an unbounded wait.
 * wait_counts_ is a vector with one element per worker: victim abstraction (element g_v precise, all others abstract).
 */
#include "c19.h"
#include <float.h>
#include <math.h>

static long g_locks, g_unlocks;         /* acquisitions / releases of mtx_ by this call (saturating at 2) */
#define MON_AT_RELEASE() do { if (g_unlocks < 2) g_unlocks++; } while (0)
#define MON_AT_ACQUIRE() do { if (g_locks < 2) g_locks++; } while (0)
#include "monitor.h"

static void throws_if(struct error_code *ec, pika_error errcode)
//@LIFT throws_if
static bool has_scheduler_mode(struct scheduler *self, scheduler_mode_t mode)
//@LIFT has_scheduler_mode

/* ---- scheduler_base members used here (the scheduler object of c19.h has n and mode_ only) ---- */
struct vx_cv { int unused; };
static struct vx_mutex g_idle_mtx;      /* mtx_ */
static struct vx_cv g_idle_cond;        /* cond_ */
struct idle_backoff_data { uint32_t wait_count_; double max_idle_backoff_time_; };
static size_t g_v;                      /* the victim worker */
static struct idle_backoff_data g_v_data;   /* wait_counts_[g_v].data_ */
static struct idle_backoff_data g_o_data;   /* stands for every other element: arbitrary content, writes dropped */
static struct idle_backoff_data *vx_wait_count(struct scheduler *s, size_t i)
{
  VX_ASSERT(i < s->n, "wait_counts_[i]: index within the vector (it has one element per worker)");
  if (i == g_v) return &g_v_data;
  g_o_data.wait_count_ = nondet_u32();
  return &g_o_data;
}

/* ---- <cmath> (environment stubs) ---- */
static double VX_MIN(double a, double b) { return (b < a) ? b : a; }   /* std::min<double>(a, b) */
static double VX_MAX(double a, double b) { return (a < b) ? b : a; }   /* std::max<double>(a, b) */
/* a double with an arbitrary bit pattern (built from a vx.h nondet so that the native replay can reproduce it) */
static double nondet_vxdouble(void) { union { uint64_t u; double d; } x; x.u = nondet_u64(); return x.d; }
/* std::pow(b, e): for b >= 1 and e >= 0 the result is >= 1 (possibly +inf); nothing is said otherwise */
static double vx_pow(double b, double e)
{
  double r = nondet_vxdouble();
  if (b >= 1.0 && e >= 0.0) VX_ASSUME(r >= 1.0); /* libm: pow is >= 1 on [1, inf) x [0, inf) */
  return r;
}
/* std::lround(x): nearest integer; a NaN / out-of-range argument has an unspecified result (FE_INVALID): obligation */
static long vx_lround(double x)
{
  VX_ASSERT(x == x, "std::lround of NaN");
  VX_ASSERT(x >= -9.0e18 && x <= 9.0e18, "std::lround: argument within the range of long");
  long r = nondet_long();
  VX_ASSUME((double) r - x <= 0.5 && x - (double) r <= 0.5); /* libm: lround rounds to nearest */
  return r;
}
static long chrono_milliseconds(long n) { return n; }

/* ---- std::condition_variable cond_ (environment stub) ---- */
enum { cv_status_no_timeout = 0, cv_status_timeout = 1 };
static long g_timed_waits, g_unbounded_waits, g_notify_all, g_notify_one;
static long g_period;                   /* the bound of the (last) timed wait */
static uint32_t g_count_at_wait;        /* wait_counts_[g_v].data_.wait_count_ when the worker blocked */
static bool g_woken;                    /* the timed wait returned no_timeout */
static int cv_wait_for(struct vx_cv *c, struct ulock *l, long period)
{
  VX_ASSERT(c == &g_idle_cond && l->owns && l->m == &g_idle_mtx && g_idle_mtx.held, "idle back-off waits on cond_ with mtx_ owned");
  if (g_timed_waits < 2) g_timed_waits++;
  g_period = period;
  g_count_at_wait = g_v_data.wait_count_;
  mon_release(l->m);
  mon_acquire(l->m);
  g_woken = nondet_bool();
  return g_woken ? cv_status_no_timeout : cv_status_timeout;
}
static void cv_wait(struct vx_cv *c, struct ulock *l)
{
  VX_ASSERT(l->owns, "condition_variable::wait needs the lock to be owned");
  if (g_unbounded_waits < 2) g_unbounded_waits++;
  mon_release(l->m);
  mon_acquire(l->m);
}
static void cv_notify_all(struct vx_cv *c) { VX_ASSERT(c == &g_idle_cond, "the idle back-off cv"); if (g_notify_all < 2) g_notify_all++; }
static void cv_notify_one(struct vx_cv *c) { VX_ASSERT(c == &g_idle_cond, "the idle back-off cv"); if (g_notify_one < 2) g_notify_one++; }

#define BACKOFF(self) (((self)->mode_ & scheduler_mode_enable_idle_backoff) != 0)
#define I_GHOST_ZERO (g_locks == 0 && g_unlocks == 0 && g_timed_waits == 0 && g_unbounded_waits == 0 && g_notify_all == 0 && \
                      g_notify_one == 0 && !g_idle_mtx.held && !g_woken)
#define I_FRAME g_locks, g_unlocks, g_timed_waits, g_unbounded_waits, g_notify_all, g_notify_one, g_idle_mtx, g_period, \
                g_count_at_wait, g_woken, g_v_data.wait_count_, g_o_data.wait_count_

#ifdef U_IDLE_CALLBACK
//@FUNC
void idle_callback(struct scheduler *self, size_t num_thread)
__CPROVER_requires(self == vx_pool->sched_ && g_v < self->n && I_GHOST_ZERO)
/* caller's duty: the callback is bound to a worker of this scheduler (thread_func: deferred_call(idle_callback, sched, thread_num)) */
__CPROVER_requires(num_thread < self->n)
/* configuration: pika.max_idle_backoff_time is a number (milliseconds) of sane magnitude; any sign */
__CPROVER_requires(g_v_data.max_idle_backoff_time_ >= -1.0e15 && g_v_data.max_idle_backoff_time_ <= 1.0e15 && \
                   g_o_data.max_idle_backoff_time_ >= -1.0e15 && g_o_data.max_idle_backoff_time_ <= 1.0e15)
/* back-off disabled: the worker does not block and touches nothing */
__CPROVER_ensures(!BACKOFF(self) ==> (g_timed_waits == 0 && g_locks == 0 && g_v_data.wait_count_ == __CPROVER_old(g_v_data.wait_count_)))
/* it never blocks without a time bound, and at most once per call */
__CPROVER_ensures(g_unbounded_waits == 0 && g_timed_waits == (BACKOFF(self) ? 1 : 0))
/* the bound is the configured maximum (rounded to a whole millisecond), never more */
__CPROVER_ensures((BACKOFF(self) && num_thread == g_v) ==> ((double) g_period <= (g_v_data.max_idle_backoff_time_ > 0.0 ? g_v_data.max_idle_backoff_time_ : 0.0) + 0.5))
/* the back-off grows while nothing wakes the worker (the count is advanced before it blocks) and is reset when it is woken */
__CPROVER_ensures((BACKOFF(self) && num_thread == g_v) ==> (g_count_at_wait == (uint32_t)(__CPROVER_old(g_v_data.wait_count_) + 1u) && \
                                                            g_v_data.wait_count_ == (g_woken ? 0u : g_count_at_wait)))
/* another worker's counter is not touched; mtx_ is released at return */
__CPROVER_ensures(num_thread != g_v ==> g_v_data.wait_count_ == __CPROVER_old(g_v_data.wait_count_))
__CPROVER_ensures(!g_idle_mtx.held && g_locks == g_unlocks)
__CPROVER_ensures(g_notify_all == 0 && g_notify_one == 0)
__CPROVER_assigns(I_FRAME)
//@LIFT body
#endif

#ifdef U_DO_SOME_WORK
//@FUNC
void do_some_work(struct scheduler *self, size_t num_thread)
__CPROVER_requires(self == vx_pool->sched_ && g_v < self->n && I_GHOST_ZERO)
/* back-off enabled: EVERY worker that backs off is woken (notify_all, exactly once); disabled: nothing to wake */
__CPROVER_ensures(g_notify_all == (BACKOFF(self) ? 1 : 0) && g_notify_one == 0)
/* do_some_work never blocks and takes no lock (it is called from the scheduling loop and from stop_locked) */
__CPROVER_ensures(g_timed_waits == 0 && g_unbounded_waits == 0 && g_locks == 0 && !g_idle_mtx.held)
__CPROVER_ensures(g_v_data.wait_count_ == __CPROVER_old(g_v_data.wait_count_))
__CPROVER_assigns(I_FRAME)
//@LIFT body
#endif

void harness(void)
{
  struct pool p;
  struct scheduler s;
  s.n = nondet_size();
  s.mode_ = nondet_u32();
  p.sched_ = &s;
  p.threads_size = nondet_size();
  vx_pool = &p;
  g_v = nondet_size();
  g_v_data.wait_count_ = nondet_u32();
  g_v_data.max_idle_backoff_time_ = nondet_vxdouble();
  g_o_data.wait_count_ = nondet_u32();
  g_o_data.max_idle_backoff_time_ = nondet_vxdouble();
  g_locks = 0; g_unlocks = 0; g_timed_waits = 0; g_unbounded_waits = 0; g_notify_all = 0; g_notify_one = 0;
  g_idle_mtx.held = false; g_woken = false; g_period = 0; g_count_at_wait = 0;
  g_refusals = 0; vx_exc = false;
  size_t core = nondet_size();
  uint32_t count0 = g_v_data.wait_count_;
#ifdef U_IDLE_CALLBACK
  idle_callback(&s, core);
  if (!BACKOFF(&s)) VX_REACH("backoff_disabled");
  if (BACKOFF(&s) && core == g_v && g_woken) VX_REACH("woken_counter_reset");
  if (BACKOFF(&s) && core == g_v && !g_woken) VX_REACH("timed_out_counter_advanced");
  if (BACKOFF(&s) && core == g_v && g_period == 1) VX_REACH("first_backoff_one_millisecond");
  if (BACKOFF(&s) && core == g_v && g_period >= 1000) VX_REACH("long_backoff");
  if (BACKOFF(&s) && core == g_v && count0 == 0xffffffffu) VX_REACH("counter_wraps");
  if (BACKOFF(&s) && core != g_v) VX_REACH("other_worker");
#endif
#ifdef U_DO_SOME_WORK
  do_some_work(&s, core);
  if (BACKOFF(&s)) VX_REACH("all_idle_workers_notified");
  if (!BACKOFF(&s)) VX_REACH("backoff_disabled");
#endif
}
