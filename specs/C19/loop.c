/* C19 unit group 3 -- the sleep decision of the scheduling loop (fragment unit, T contract).
 * Lifted fragment of scheduling_loop(): the statement
 *     if (scheduler.SchedulingPolicy::wait_or_add_new(...)) { bool can_exit = ...; if (pre_sleep) {...} else {...} }
 * "The worker goes to sleep only if can_exit (terminated threads cleaned up AND its queues empty): nothing is queued on
 *  a worker at the moment it sleeps."
 * Declared free variables of the fragment: num_thread, running, enable_stealing_staged (inputs); idle_loop_count,
 * added, may_exit (loop state); this_state (reference to the worker's own word); scheduler (SchedulingPolicy callees
 * = T stubs below).
 */
#include "c19.h"
#define GUAR(o, n) (0)                  /* the fragment itself never writes the word (suspend() is a callee) */
#define RELY(o, n) (VALID(n))           /* requesters / shutdown may move the worker's word at any time */
#define STEP_HOOK(o, n) do { } while (0)
#include "state.h"

static void throws_if(struct error_code *ec, pika_error errcode)
//@LIFT throws_if

/* ---- loop state (free variables of the fragment) ---- */
static int64_t idle_loop_count;
static size_t added;
static bool may_exit;
static runtime_state_t *vx_ref_this_state;   /* std::atomic<runtime_state>& this_state = scheduler.get_state(num_thread) */

/* ---- SchedulingPolicy callees: T stubs with ghost records ---- */
static size_t g_num_thread;             /* the worker running the loop */
static bool g_running_arg;
static long g_wait_calls, g_cleanup_calls, g_qlen_calls, g_suspend_calls;
static bool g_cleaned;                  /* last result of cleanup_terminated(num_thread, true): terminated threads all cleaned up */
static int64_t g_qlen_seen;             /* last result of get_queue_length(num_thread) */
static bool g_wait_result;

static bool sp_wait_or_add_new(size_t num_thread, bool running, int64_t *idle, bool enable_stealing, size_t *added_p)
{
  VX_ASSERT(num_thread == g_num_thread, "wait_or_add_new: asked about this worker");
  if (g_wait_calls < 2) g_wait_calls++;
  *added_p = nondet_size();
  g_wait_result = nondet_bool();
  return g_wait_result;
}
static bool sp_cleanup_terminated(size_t num_thread, bool delete_all)
{
  if (g_cleanup_calls < 2) g_cleanup_calls++;
  /* only a complete clean-up of THIS worker's terminated list counts */
  g_cleaned = nondet_bool() && num_thread == g_num_thread && delete_all;
  return g_cleaned || (nondet_bool() && !(num_thread == g_num_thread && delete_all));
}
static int64_t sp_get_queue_length(size_t num_thread)
{
  int64_t r = nondet_i64();
  VX_ASSUME(r >= 0); /* a queue length */
  if (g_qlen_calls < 2) g_qlen_calls++;
  /* the length of another worker's queue says nothing about this worker's queues */
  g_qlen_seen = (num_thread == g_num_thread) ? r : -1;
  return r;
}
static int64_t sp_get_thread_count(size_t num_thread)
{
  int64_t r = nondet_i64();
  VX_ASSUME(r >= 0); /* a thread count */
  return r;
}
/* scheduler_base::suspend (unit state.sched_suspend): the worker publishes `sleeping` and blocks */
static void sp_suspend(size_t num_thread)
{
  VX_ASSERT(num_thread == g_num_thread, "the worker suspends itself, not another worker");
  VX_ASSERT(!g_running_arg, "the worker goes to sleep only when it is no longer `running`");
  VX_ASSERT(g_cleanup_calls >= 1 && g_cleaned, "the worker goes to sleep only after its terminated threads have been cleaned up");
  VX_ASSERT(g_qlen_calls >= 1 && g_qlen_seen == 0, "the worker goes to sleep only if its queues were seen empty: nothing is queued on a worker at the moment it sleeps");
  VX_ASSERT(g_reads >= 1 && g_last_read == S_PRE, "the worker goes to sleep only when it has seen its word in pre_sleep (a suspension was requested)");
  if (g_suspend_calls < 2) g_suspend_calls++;
}

#define L_FRAME idle_loop_count, added, may_exit, g_wait_calls, g_cleanup_calls, g_qlen_calls, g_suspend_calls, g_cleaned, \
                g_qlen_seen, g_wait_result, g_v_state, g_o_state, lin_count, lin_old, lin_new, lin_first_old, lin_first_new, \
                g_last_read, g_reads, g_interfered

//@FUNC
void sleep_decision(size_t num_thread, bool running, bool enable_stealing_staged)
__CPROVER_requires(num_thread == g_num_thread && num_thread == g_v && running == g_running_arg && VALID(g_v_state) && vx_ref_this_state == &g_v_state)
__CPROVER_requires(g_wait_calls == 0 && g_cleanup_calls == 0 && g_qlen_calls == 0 && g_suspend_calls == 0 && lin_count == 0 && g_reads == 0 && !g_interfered && !g_cleaned && g_qlen_seen == -1 && !g_wait_result)
/* goes to sleep at most once per iteration, and only if: not running, terminated threads cleaned up, own queues empty,
 * and a suspension request (pre_sleep) was seen */
__CPROVER_ensures(g_suspend_calls <= 1)
__CPROVER_ensures(g_suspend_calls == 1 ==> (!running && g_cleaned && g_qlen_seen == 0 && g_last_read == S_PRE))
/* conversely a worker that sees the request and can exit does go to sleep (so that the requester's call can return) */
__CPROVER_ensures((g_wait_result && !running && g_cleaned && g_qlen_seen == 0 && g_reads >= 1 && g_last_read == S_PRE) ==> g_suspend_calls == 1)
/* the fragment itself never writes the worker's word */
__CPROVER_ensures(lin_count == 0)
__CPROVER_assigns(L_FRAME)
{
//@LIFT body
}

void harness(void)
{
  g_num_thread = nondet_size();
  g_v = g_num_thread;
  g_v_state = nondet_i8();
  vx_ref_this_state = &g_v_state;
  g_running_arg = nondet_bool();
  idle_loop_count = nondet_i64();
  added = nondet_size();
  may_exit = nondet_bool();
  g_cleaned = false; g_qlen_seen = -1; g_wait_result = false;
  g_wait_calls = 0; g_cleanup_calls = 0; g_qlen_calls = 0; g_suspend_calls = 0; lin_count = 0; g_reads = 0; g_interfered = false;
  bool may_exit0 = may_exit;
  sleep_decision(g_num_thread, g_running_arg, nondet_bool());
  if (g_suspend_calls == 1) VX_REACH("went_to_sleep");
  if (g_wait_result && g_reads >= 1 && g_last_read == S_PRE && g_suspend_calls == 0 && g_qlen_calls >= 1 && g_qlen_seen > 0) VX_REACH("stayed_awake_queue_not_empty");
  if (g_wait_result && g_reads >= 1 && g_last_read == S_PRE && g_suspend_calls == 0 && g_cleanup_calls >= 1 && !g_cleaned) VX_REACH("stayed_awake_cleanup_incomplete");
  if (g_wait_result && g_reads >= 1 && g_last_read != S_PRE && may_exit && !may_exit0) VX_REACH("may_exit_set");
  if (!g_wait_result) VX_REACH("more_work");
}
