# C19 -- additional units: the stop hand-shake seen from the worker ("a worker told to stop observes it"), the idle back-off
# condition variable (idle_callback / do_some_work), the blocking point of scheduler_base::suspend (M), and the try / catch
# structure of thread_func.  Defines STOP_UNITS / STOP_META / STOP_STATIC; merged into specs/C19/spec.py by the maintainer
# (`exec(open(".../stop_spec.py").read()); UNITS += STOP_UNITS`).  Works both when this text is exec'd inside spec.py (after
# more_spec.py; the names are then already there) and stand-alone (scratch property C19X).
import re as _re

if "MORE_POOL" not in globals():
    _g = {}
    exec(compile(open("/verif/specs/C19/spec.py").read(), "/verif/specs/C19/spec.py", "exec"), _g)
    for _k, _v in _g.items():
        if not _k.startswith("__") and _k not in ("UNITS", "META", "STATIC", "STOP_UNITS", "STOP_META", "STOP_STATIC"):
            globals()[_k] = _v

from vx.lift import Lift, Sub, Call, Guard, DropStmt, Rule, LiftError, match_close, _blocks, _lower_one_guard   # noqa: E402
from vx.run import Unit                                                                                         # noqa: E402
from vx import census                                                                                           # noqa: E402

ST = "../C19/"      # the templates live next to this file

# ---- stop_locked, followed from one worker's point of view ------------------------------------------------------------------
# joinable() during stop: stable (see stop_wake.c) -- a syntactic rename of the stub chosen by the POOL rules
STABLE_JOIN = Sub(r"\bthread_joinable\(", "stable_joinable(", None)
SW_LOOP = """
__CPROVER_assigns(i, g_rm_calls_v, g_rm_calls_o, g_refusals, vx_exc, g_thrown_code, vx_ec_obj, g_dsw_calls, g_dsw_after_raise, vx_tm, g_v_has_thread, g_rm_threw)
__CPROVER_loop_invariant(i <= self->threads_size && !vx_exc && vx_tm.owns && g_rm_calls_o >= 0 && g_rm_calls_o <= 2 && g_dsw_calls >= 0 && g_dsw_calls <= 2 && g_dsw_after_raise >= 0 && g_dsw_after_raise <= 2 && g_refusals >= 0 && g_refusals <= 2)
__CPROVER_loop_invariant(g_dsw_after_raise >= __CPROVER_loop_entry(g_dsw_after_raise))
__CPROVER_loop_invariant(g_rm_calls_v == ((i > g_v && __CPROVER_loop_entry(g_v_has_thread)) ? 1 : 0))
__CPROVER_loop_invariant(g_v_has_thread == (i > g_v ? 0 : __CPROVER_loop_entry(g_v_has_thread)))
"""

STOP_UNITS = [
    Unit("stop.stop_locked_wake", ST + "stop_wake.c", enforce="stop_locked",
         lifts={"throws_if": HELPERS["throws_if"],
                "body": Lift(IMPL, r"void scheduled_thread_pool<Scheduler>::stop_locked\(", rules=[
                    Call0(r"(?<![\w:>.])wait", "pool_wait(self);", stmt=True),
                    maythrow("resume_internal", 2), maythrow("remove_processing_unit_internal", 1), UNLOCK_GUARD] + MORE_POOL,
                    post=[STABLE_JOIN], loops={1: SW_LOOP, "count": 1})},
         funcs=[IMPL + ": scheduled_thread_pool::stop_locked"], min_obligations=60,
         doc="T/S (stopper, one worker followed through the hand-shake): under A-STOP-QUIET (no suspension request in flight or "
             "issued during stop) a worker is never joined while it may still be blocked in scheduler_base::suspend with the stop "
             "request standing on its word: the raise to `stopping` hits a sleeping / about-to-sleep worker only if that worker's "
             "suspend cv is notified afterwards; every worker that has a thread is joined exactly once, with the caller's lock "
             "released, and threads_ is cleared only after that; a worker already terminating / stopped is not moved back; the "
             "idle back-off sleepers are signalled after the raise; blocking: wait() first"),
]

# ---- scheduler_base::suspend: the blocking point (M) -------------------------------------------------------------------------
class LoopContractAt(Rule):
    """attach a loop contract to every `while (...) {...}` whose header or body contains `marker` (a loop that exists only in a repaired /
    refactored tree must not turn into an extraction failure); n = None: any number of such loops"""

    def __init__(self, marker, contract, n=None):
        self.marker, self.contract, self.n = marker, contract.strip(), n

    def apply(self, text):
        k, scan = 0, 0
        while True:
            m = _re.compile(r"\bwhile\s*\(").search(text, scan)
            if not m:
                break
            cl = match_close(text, m.end() - 1)
            rest = text[cl + 1:].lstrip()
            end = match_close(text, text.index("{", cl), "{", "}") if rest.startswith("{") else cl
            if _re.search(self.marker, text[m.end():end]) and not rest.startswith("__CPROVER"):
                text = text[:cl + 1] + "\n" + self.contract + "\n" + text[cl + 1:]
                k += 1
            scan = cl + 1
        self.check(k, "LoopContractAt(%s)" % self.marker)
        return text


SUSPEND_BLOCK = SCHED + [
    Method("wait_for", "cv_wait_for(&{recv}, &{0}, {1})"),
    Method("wait_until", "cv_wait_for(&{recv}, &{0}, {1})"),
    Sub(r"\bstd::chrono::(milliseconds|microseconds|seconds)\b", r"chrono_\1", None),
    Sub(r"\bstd::cv_status::(\w+)", r"cv_status_\1", None),
]
POLL_LOOP = LoopContractAt(r"\bcv_wait(?:_for)?\b", """
__CPROVER_assigns(g_v_state, g_o_state, g_last_read, g_reads, g_interfered, g_v_susp_mtx, g_o_susp_mtx, g_waits, g_blocks_timed, g_blocks_unbounded, g_raised_before_block)
__CPROVER_loop_invariant(SL_LOOP_INV)
""")
STOP_UNITS += [
    Unit("stop.suspend_block", ST + "stop_sleep.c", enforce="sched_suspend",
         lifts={"throws_if": HELPERS["throws_if"],
                "body": Lift(SB_CPP, r"void scheduler_base::suspend\(std::size_t num_thread\)", rules=SUSPEND_BLOCK, post=[POLL_LOOP])},
         funcs=[SB_CPP + ": scheduler_base::suspend"], min_obligations=40,
         doc="M (worker): the worker enters an UNBOUNDED block on its suspend cv only while its word is still `sleeping` (the "
             "suspend mutex excludes no writer of the word, so the environment acts between the worker's last access and the "
             "block); time-bounded blocks are free.  Plus the S obligations of state.sched_suspend.  EXPECTED TO FAIL on the pinned "
             "tree (finding O3: wait(l) without predicate / time-out after an unconditional store; a stop / terminate request "
             "placed between the two is slept through); -DKNOWN_RAISE_BEFORE_BLOCK (no request between the store and the block) "
             "proves it completely"),
]

# ---- the idle back-off condition variable: scheduler_base::idle_callback / do_some_work (M / T) -------------------------------
IDLE = ENUMS + [
    Call0(r"(?<![\w>.:])has_scheduler_mode", "has_scheduler_mode(self, {0})"),
    Sub(r"\bwait_counts_\[([^\]]+)\]\.data_", r"(*vx_wait_count(self, \1))", None),
    RefVar(r"idle_backoff_data", "struct idle_backoff_data"),
    Sub(r"\bmtx_\b", "g_idle_mtx", None),
    Sub(r"\bcond_\b", "g_idle_cond", None),
    Call(r"\(std::min\)", "VX_MIN({0}, {1})", None),
    Call(r"\(std::max\)", "VX_MAX({0}, {1})", None),
    Call(r"(?<![\w:.])double", "((double)({args}))", None),
    Sub(r"\bstd::numeric_limits<double>::max_exponent\b", "DBL_MAX_EXP", None),
    Call(r"\bstd::pow", "vx_pow({0}, {1})", None),
    Call(r"\bstd::lround", "vx_lround({0})", None),
    Call(r"\bstd::chrono::(milliseconds)\s+(\w+)", "long {h2} = chrono_{h1}({args})", None),
    LOCK_MAKE,
    Method("unlock", "ulock_unlock(&{recv})"),
    Method("lock", "ulock_lock(&{recv})"),
    Method("wait_for", "cv_wait_for(&{recv}, &{0}, {1})"),
    Method("wait", "cv_wait(&{recv}, &{0})"),
    Method("notify_all", "cv_notify_all(&{recv})"),
    Method("notify_one", "cv_notify_one(&{recv})"),
    Sub(r"\bstd::cv_status::(\w+)", r"cv_status_\1", None),
]
IDLE_HELPERS = {"throws_if": HELPERS["throws_if"], "has_scheduler_mode": HELPERS["has_scheduler_mode"]}
STOP_UNITS += [
    Unit("stop.idle_callback", ST + "stop_idle.c", defines=["U_IDLE_CALLBACK"], enforce="idle_callback",
         lifts=dict(IDLE_HELPERS, body=Lift(SB_CPP, r"void scheduler_base::idle_callback\(std::size_t num_thread\)", rules=IDLE)),
         funcs=[SB_CPP + ": scheduler_base::idle_callback", SB_HPP + ": scheduler_base::has_scheduler_mode"], min_obligations=25,
         doc="M/T: an idle worker backs off only in a TIME-BOUNDED wait (wait_for on cond_ with mtx_ owned, at most once per call), whose "
             "period is at most max_idle_backoff_time_ rounded to a millisecond; the back-off count is advanced before it blocks and "
             "reset iff it was woken; nothing happens when idle back-off is disabled; mtx_ is released at return"),
    Unit("stop.do_some_work", ST + "stop_idle.c", defines=["U_DO_SOME_WORK"], enforce="do_some_work",
         lifts=dict(IDLE_HELPERS, body=Lift(SB_CPP, r"void scheduler_base::do_some_work\(std::size_t\)", rules=IDLE)),
         funcs=[SB_CPP + ": scheduler_base::do_some_work"], min_obligations=10,
         doc="T: with idle back-off enabled do_some_work wakes EVERY backing-off worker (cond_.notify_all, exactly once), otherwise it "
             "does nothing; it never blocks and takes no lock; it does not touch suspend_conds_ (a worker blocked in "
             "scheduler_base::suspend is not woken by it)"),
]

# ---- thread_func: the try / catch structure around the scheduling loop (T) ------------------------------------------------------
class GuardX(Rule):
    """vx.lift.Guard plus the exceptional edge: inside the guard's scope every `VX_PROPAGATE;` (the lowered throw edge of a
    may-throw call) becomes `{ <dtor> VX_PROPAGATE; }`, so that the destructor also runs during unwinding"""

    def __init__(self, decl, ctor, dtor, n=1):
        self.decl, self.ctor, self.dtor, self.n = decl, ctor, dtor, n

    def apply(self, text):
        ms = list(_re.finditer(self.decl, text, _re.S))
        self.check(len(ms), "GuardX(/%s/)" % self.decl)
        for idx in range(len(ms) - 1, -1, -1):
            m = list(_re.finditer(self.decl, text, _re.S))[idx]
            dtor = m.expand(self.dtor)
            encl = [b for b in _blocks(text) if b[0] < m.start() and b[1] > m.start()]
            if not encl:
                raise LiftError("GuardX: declaration outside any block")
            B = max(encl, key=lambda b: b[0])
            seg = _re.sub(r"\bVX_PROPAGATE\s*;", lambda mm: "{ %s VX_PROPAGATE; }" % dtor, text[m.end():B[1]])
            text = text[:m.end()] + seg + text[B[1]:]
            m = list(_re.finditer(self.decl, text, _re.S))[idx]
            text = _lower_one_guard(text, m, m.expand(self.ctor), dtor)
        return text


class TryCatchNest(Rule):
    """try { A } catch (T1 ..) { B1 } catch (T2 ..) { B2 } ... with NESTED try blocks (innermost first) and class names kept
    qualified (pika::exception -> VX_CATCHES_pika_exception, std::exception -> VX_CATCHES_std_exception, ... -> VX_CATCHES_all):
        { { A' } vx_try_end_k: ; if (vx_exc != EXC_none) { if (VX_CATCHES_T1) { vx_catch(); B1 } else if ... } } if (vx_exc != EXC_none) VX_PROPAGATE;
    A' = A with every VX_PROPAGATE turned into `goto vx_try_end_k`.  Handlers are tried in textual order, as in C++; a throw
    inside a handler (VX_PROPAGATE in Bi) belongs to the enclosing try."""

    def __init__(self, n=None):
        self.n = n

    def apply(self, text):
        k = 0
        while True:
            ms = list(_re.finditer(r"\btry\s*\{", text))
            if not ms:
                break
            m = ms[-1]
            k += 1
            op = m.end() - 1
            cl = match_close(text, op, "{", "}")
            A = _re.sub(r"\bVX_PROPAGATE\b", "goto vx_try_end_%d" % k, text[op + 1:cl])
            pos, arms = cl + 1, []
            while True:
                mc = _re.match(r"\s*catch\s*\(\s*(\.\.\.|((?:\w+::)*\w+)\s*(?:const)?\s*&?\s*\w*)\s*\)\s*\{", text[pos:], _re.S)
                if not mc:
                    break
                cop = pos + mc.end() - 1
                ccl = match_close(text, cop, "{", "}")
                arms.append(("all" if mc.group(1) == "..." else mc.group(2).replace("::", "_"), text[cop + 1:ccl]))
                pos = ccl + 1
            if not arms:
                raise LiftError("TryCatchNest: try without catch clause")
            hs = " else ".join("if (VX_CATCHES_%s) { vx_catch(); %s }" % (t, b) for t, b in arms)
            rep = "{ { %s } vx_try_end_%d: ; if (vx_exc != EXC_none) { %s } } if (vx_exc != EXC_none) VX_PROPAGATE;" % (A, k, hs)
            text = text[:m.start()] + rep + text[pos:]
        self.check(k, "TryCatchNest")
        return text


TF_RULES = [
    DropStmt(r"\bPIKA_LOG", None),
    DropStmt(r"\bPIKA_ASSERT", None),                 # the exit assertion is the subject of more.thread_func_exit
    # declarations without effect on the question asked here
    Sub(r"(?:\[\[maybe_unused\]\]\s*)?pika::threads::coroutines::detail::prepare_main_thread\s+\w+\s*;", "", None),
    Sub(r"\bscheduling_counter_data\s*&\s*\w+\s*=[^;]*;", "", None),
    Call(r"\bscheduling_counters\s+\w+", "", None, stmt=True),
    # scheduling_callbacks callbacks(deferred_call(&scheduler_base::idle_callback, sched_.get(), thread_num), nullptr, ...)
    Call(r"\butil::detail::deferred_call", lambda args, env: "deferred_%s(%s)" % (args[0].split("::")[-1].strip(), ", ".join(args[1:])), None),
    Call(r"\bscheduling_callbacks\s+(\w+)", "int {h1} = make_callbacks({0})", None),
    Sub(r"\bsched_\.get\(\)", "self->sched_", None),
    Call0(r"(?<![\w:>.])scheduling_loop", "{ scheduling_loop_stub(self, {0}, {3}); if (vx_exc != EXC_none) VX_PROPAGATE; }", stmt=True),
] + ENUMS + [
    Call(r"\bpika::exception(?=\s*\()", "make_pika_exception({0})", None),
    Call(r"\bpika::throw_with_info", "{ vx_throw_obj({0}); VX_PROPAGATE; }", None, stmt=True),
    Sub(r"\bthrow\s*;", "{ vx_exc = vx_caught; vx_err = vx_caught_err; VX_PROPAGATE; }", None),
    Call0(r"(?<![\w:>.])report_error", "report_error(self, {0});", stmt=True),
    GuardX(r"manage_active_thread_count\s+(\w+)\(([^;]*)\);", r"/* manage_active_thread_count \1 */", "active_count_release();", None),
    TryCatchNest(None),
    Sub(r"\bVX_PROPAGATE\b", "return", None),
]
STOP_UNITS += [
    Unit("stop.thread_func_handlers", ST + "stop_tf.c", enforce="thread_func_run",
         lifts={"body": Lift(IMPL, r"try\s*\{\s*try\s*\{",     # (the only nested try of the file; up to the log line that follows it)
                             fragment_end=r"(?=PIKA_LOG\(info,\s*\"pool \\\"\{\}\\\" thread_num: \{\}, ending OS thread)", rules=TF_RULES)},
         funcs=[IMPL + ": scheduled_thread_pool::thread_func (fragment: `try { try { manage_active_thread_count ...; scheduling_loop(...); ... } "
                       "catch (pika::exception) ... catch (std::system_error) ... catch (std::exception) ... } catch (...) { ... }`)"],
         min_obligations=15,
         doc="T: however the scheduling loop ends, no exception leaves the worker's thread function; an abnormal end is reported exactly "
             "once through report_error(global_thread_num, current_exception) (which tells every worker to terminate), a normal end "
             "is not reported; what is reported is what was caught (a plain std::exception possibly repackaged as pika::exception("
             "unhandled_exception)); the active-thread count is given back exactly once on every path; the loop runs once, for this "
             "worker, with scheduler_base::idle_callback bound to this worker's number"),
]

STOP_UNITS += [
    Unit("stop.lemma_quiet", ST + "stop_lemma.c", kind="lemma", min_obligations=12,
         doc="side conditions of stop.stop_locked_wake's rely RELY_QUIET (reflexive, transitive, inside RELY_LIVE, contains the steps of "
             "the waking / finishing worker and of other raisers, contains no suspension step, an awake worker stays awake) and the "
             "word-level shape of finding O3 (a stop / terminate request on a sleeping worker is a legal step the worker must "
             "tolerate, after which the word no longer shows that the worker is asleep)"),
]

# experiments (NOT registered units; run with STOP_EXPERIMENTS=1 ./check C19X): the same lifted text under a dropped assumption
import copy as _copy
def _variant(u, name, defines):
    v = _copy.copy(u)
    v.name, v.defines = name, list(u.defines) + list(defines)
    return v
STOP_EXPERIMENTS = [
    _variant(STOP_UNITS[0], "stop.x_stop_locked_wake_suspend_in_flight", ["EXPERIMENT_SUSPEND_IN_FLIGHT"]),
    _variant(STOP_UNITS[1], "stop.x_suspend_block_known", ["KNOWN_RAISE_BEFORE_BLOCK"]),
]

# ---- census: who can wake a worker that is blocked in scheduler_base::suspend, and who synchronises with it ------------------------
_ALL_S = "libs/pika/**/*.[ch]pp"
ERR_HPP = "libs/pika/errors/include/pika/errors/error.hpp"
MODE_HPP = "libs/pika/threading_base/include/pika/threading_base/scheduler_mode.hpp"
STATE_HPP = "libs/pika/threading_base/include/pika/threading_base/scheduler_state.hpp"
STOP_STATIC = [
    census.sites("suspend_mtxs_ sites", [_ALL_S], r"\bsuspend_mtxs_\b", 3,
                 "declaration (scheduler_base.hpp), constructor initialiser, and the unique_lock in scheduler_base::suspend: nobody but the "
                 "sleeping worker ever locks suspend_mtxs_[i], so the mutex orders the worker's block with no writer of its word and with "
                 "no notifier (stop.suspend_block: the environment acts between the worker's last access and its block)"),
    census.sites("suspend_conds_ sites", [_ALL_S], r"\bsuspend_conds_\b", 7,
                 "declaration, constructor initialiser, suspend: PIKA_ASSERT + wait(l), resume: notify_one in the loop, PIKA_ASSERT + notify_one: "
                 "a worker blocked in suspend() is woken by scheduler_base::resume only"),
    census.sites("Scheduler::resume call sites", [_ALL_S], r"Scheduler::resume\s*\(", 2,
                 "resume_internal (first loop) and resume_processing_unit_direct (the notify-until-not-sleeping loop): stop_locked reaches "
                 "suspend_conds_ only through resume_internal, i.e. BEFORE its raise; report_error never does"),
    census.sites("idle back-off cv sites", ["libs/pika/threading_base/**/*.[ch]pp"], r"\bcond_\b", 3,
                 "declaration, idle_callback: wait_for, do_some_work: notify_all (stop.idle_callback / stop.do_some_work)"),
    census.sites("idle_callback sites", [_ALL_S], r"\bidle_callback\b", 3,
                 "declaration, definition, and the deferred_call in thread_func that binds it to thread_num (stop.thread_func_handlers)"),
    census.enum("pika::error values", ERR_HPP, "error", {"success": 0, "no_success": 1, "invalid_status": 4, "bad_parameter": 5, "unhandled_exception": 17}),
    census.sites("scheduler_mode::enable_idle_backoff value", [MODE_HPP], r"\benable_idle_backoff\s*=\s*0x100\b", 1,
                 "the bit tested by idle_callback / do_some_work as hard-coded in specs/C19/c19.h (the enum has a computed enumerator, "
                 "default_mode, which census.enum cannot evaluate)"),
    census.enum("runtime_state values", STATE_HPP, "runtime_state", {"initialized": 0, "running": 5, "suspended": 6, "pre_sleep": 7, "sleeping": 8,
                                                                       "stopping": 11, "terminating": 12, "stopped": 13}),
]

STOP_META = {
    "explanation":
        "The stop hand-shake from the point of view of the worker that is told to stop, plus the two condition variables a worker "
        "can sleep on.  stop.stop_locked_wake: one symbolic worker followed through the lifted stop_locked; ghost g_need_wake = 'our "
        "raise hit this worker while it was asleep / about to sleep and nobody has notified its suspend cv since'; obligation: not "
        "g_need_wake when the worker is joined.  It PROVES under A-STOP-QUIET and FAILS without it (experiment "
        "stop.x_stop_locked_wake_suspend_in_flight, STOP_EXPERIMENTS=1): stop_locked wakes (resume_internal) BEFORE it raises and "
        "notifies no suspend cv afterwards.  stop.suspend_block: the worker side; EXPECTED FAILURE on the pinned tree (finding O3): "
        "scheduler_base::suspend stores `sleeping` unconditionally and then blocks in condition_variable::wait(l) with neither a "
        "predicate nor a time-out, under a mutex that nobody else ever locks; a stop / terminate request that moves the word between "
        "the store and the block (legal: stop.lemma_quiet) is followed by no notification that can still reach the worker, and "
        "resume_processing_unit_direct stops re-notifying because the word is no longer `sleeping`: the worker sleeps for ever, "
        "remove_processing_unit_internal's join() and with it stop() never return.  Schedule (API use is sequential): "
        "T1 suspend_processing_unit(v) CASes running->pre_sleep; worker v sees pre_sleep, calls suspend(), stores `sleeping`, is "
        "preempted before `std::unique_lock l(suspend_mtxs_[v])`; T1's yield_while sees the word != pre_sleep and returns; main thread: "
        "runtime::stop -> thread_manager::stop(false) -> stop_locked(non-blocking): resume(v) (notification lost: nobody waits yet), "
        "set_all_states_at_least(stopping): sleeping->stopping; -> thread_manager::stop(true) -> stop_locked(blocking): resume(v), "
        "resume_processing_unit_direct(v): resume(v) again, word == stopping != sleeping -> returns (all three notifications lost); "
        "raise: no-op; remove_processing_unit_internal(v): join(); worker v now runs: lock, wait(l): blocks, nobody will ever notify. "
        "With a suspension concurrent with stop the window is much wider (experiment above).  Candidate repair (proves "
        "stop.suspend_block, vetted with vx/cxxcheck.sh): in scheduler_base::suspend replace `suspend_conds_[num_thread].wait(l);` by "
        "`while (states_[num_thread].load() == runtime_state::sleeping && suspend_conds_[num_thread].wait_for(l, "
        "std::chrono::milliseconds(100)) == std::cv_status::timeout) {}` (leave on notification as before, or at most 100 ms after the "
        "word has left `sleeping`).  -DKNOWN_RAISE_BEFORE_BLOCK (no request between the store and the block) proves the unit completely.  "
        "stop.idle_callback / stop.do_some_work: the idle back-off cv (M/T: every block is a wait_for bounded by "
        "max_idle_backoff_time_; do_some_work = notify_all).  stop.thread_func_handlers: try / catch structure of thread_func (T).",
    "trusted_base": [
        "specs/C19/stop_wake.c resume_internal: CONTRACT stub of state.resume_internal + state.resume_pu_direct + state.sched_resume -- "
        "notifies suspend_conds_[i] for every i < threads_.size(); blocking: VX_ASSUME(g_v_state != S_SLEEP) at the moment of "
        "resume_processing_unit_direct's last read of a joinable worker's word (its proved postcondition g_last_read != sleeping); "
        "may throw instead; writes no word",
        "specs/C19/stop_wake.c sched_set_all_states_at_least (CONTRACT stub of state.set_all_states_at_least: interference, then the "
        "word is raised iff below), remove_processing_unit_internal (stop request + join of a worker that has a thread; may throw), "
        "sched_do_some_work (signals the idle back-off cv only: stop.do_some_work), pool_wait, unlock_guard on the caller's lock",
        "specs/C19/stop_wake.c stable_joinable / threads_clear: threads_[i].joinable() changes only through stop_locked's own "
        "remove_processing_unit_internal while stop_locked runs (census MORE_STATIC `stop_locked / remove / add call sites`; both run under "
        "the thread manager's lock); clearing a vector that still holds a joinable std::thread is std::terminate (obligation)",
        "specs/C19/stop_sleep.c block_point: at an unbounded condition_variable::wait the environment acts first (interfere() under "
        "RELY_WORKER) because suspend_mtxs_[i] excludes no writer of the word (census `suspend_mtxs_ sites`); cv_wait_for: a "
        "time-bounded wait releases and re-acquires the lock and returns timeout / no_timeout arbitrarily; chrono_* / cv_status_* spelling",
        "specs/C19/stop_idle.c vx_pow: VX_ASSUME(r >= 1.0) for base >= 1 and exponent >= 0 (libm); vx_lround: VX_ASSUME(|r - x| <= 0.5) "
        "(rounds to nearest; NaN / out-of-range arguments are obligations); VX_MIN / VX_MAX = std::min / std::max on double; cond_ / mtx_ "
        "stubs (wait_for releases and re-acquires mtx_, returns timeout / no_timeout arbitrarily); wait_counts_ victim abstraction "
        "(element g_v precise, the others arbitrary)",
        "specs/C19/stop_tf.c exception lowering: pending-exception ghost vx_exc with the class order pika::exception < std::system_error < "
        "std::exception < anything; scheduling_loop_stub ends normally or with any of the four kinds; report_error records what is being "
        "handled; manage_active_thread_count = one decrement at scope exit, also on the exceptional edge (rule GuardX)",
        "stop_spec.py rules LoopContractAt (attach a loop contract to a polling loop that exists only in a repaired tree), GuardX (RAII "
        "guard whose destructor also runs on lowered throw edges), TryCatchNest (nested try blocks, several handlers, qualified class "
        "names), STABLE_JOIN (rename of the joinable() stub), the declaration-dropping rules of TF_RULES (prepare_main_thread, "
        "scheduling_counter_data&, scheduling_counters, PIKA_ASSERT of thread_func: subject of more.thread_func_exit)",
    ],
    "assumptions": [
        "A-STOP-QUIET (stop.stop_locked_wake): no suspension request (suspend_processing_unit / suspend pool) is in flight when "
        "stop_locked is entered and none is issued while it runs: the word of a worker is not `pre_sleep` at entry and the environment "
        "takes no running -> pre_sleep / pre_sleep -> sleeping step (RELY_QUIET; side conditions: stop.lemma_quiet).  Dropping it makes "
        "the unit fail (experiment stop.x_stop_locked_wake_suspend_in_flight)",
        "stop.stop_locked_wake speaks about ONE call of stop_locked: a worker whose word is already >= stopping at entry is taken to be "
        "awake.  runtime::stop calls stop_locked twice (non-blocking, then blocking); the non-blocking call can leave a worker asleep "
        "with `stopping` on its word (reach non_blocking_raise_on_sleeping_worker_notified_only_before_the_raise) -- whether that worker "
        "wakes is exactly finding O3 (stop.suspend_block)",
        "stop.suspend_block keeps state.sched_suspend's assumption O1 (no stop / terminate request between the scheduling loop's "
        "pre_sleep check and the store of `sleeping`); between the store and the block such requests ARE in the rely",
        "stop.idle_callback: max_idle_backoff_time_ is a number of magnitude <= 1e15 (any sign; configuration "
        "pika.max_idle_backoff_time), num_thread < number of workers (the callback is bound to thread_num by thread_func: "
        "stop.thread_func_handlers)",
        "stop.thread_func_handlers: report_error (set_all_states_at_least, thread_pool_base::report_error, Scheduler::on_error) does not "
        "throw; only the scheduling loop throws inside the fragment",
    ],
    "not_decided": [
        "liveness proper: that a notified worker is eventually scheduled, that resume_processing_unit_direct's notify loop terminates",
        "a notification from do_some_work that arrives between an idle worker's decision to back off and its wait_for is missed "
        "(do_some_work does not take mtx_): the delay is bounded by the proved wait_for bound, nothing more is claimed",
        "~scheduled_thread_pool (skips stop_locked when has_reached_state(suspended), then clears threads_: a pool destroyed while "
        "suspended, or after a non-blocking stop only, would destroy joinable std::threads) and the catch handler of run() (barrier "
        "release + stop_locked): not lifted",
        "non-blocking stop_locked: that a worker raised while asleep and notified only before the raise wakes up (needs the worker to "
        "be inside wait() at that moment: finding O3)",
    ],
}
