/* C19 (mutator closure) -- lemmas over ALL guarantees on the per-worker runtime_state word: the hand-shake guarantees of
 * state.h (GUAR_REQUEST, GUAR_WORKER, GUAR_RAISE) and the life-cycle guarantees of more_rel.h (GUAR_UP, GUAR_DOWN, GUAR_ADD,
 * GUAR_STOPREQ, GUAR_TERMREQ, GUAR_START).  No lifted code; full int8 domain, loop free.
 *
 * Each guarantee is what the unit(s) named next to it PROVE about the lifted writer (vx_step asserts GUAR at every own
 * step); together with the census (MORE_STATIC: every textual write site of the word belongs to one of these units) the
 * disjunction ANY_STEP below is everything that can happen to a worker's word after construction.
 */
#include "c19.h"
#include "more_rel.h"
#define GUAR(o, n) (0)
#define RELY(o, n) (1)
#define STEP_HOOK(o, n) do { } while (0)
#include "more_state.h"
static void throws_if(struct error_code *ec, pika_error errcode) { }

/* party W (the worker itself) */
#define BY_WORKER(o, n) (GUAR_UP(o, n) /* more.thread_func_startup */ || GUAR_WORKER(o, n) /* state.sched_suspend */ || \
                         GUAR_DOWN(o, n) /* more.loop_tail */)
/* every other party */
#define BY_OTHERS(o, n) (GUAR_REQUEST(o, n) /* state.suspend_pu_internal, state.suspend_internal */ || \
                         GUAR_RAISE(o, n) /* state.set_all_states_at_least <- more.stop_locked, more.report_error */ || \
                         GUAR_STOPREQ(o, n) /* more.remove_pu_internal, more.stop_locked */ || \
                         GUAR_TERMREQ(o, n) /* more.report_error */ || \
                         GUAR_ADD(o, n) /* more.add_pu_internal */ || \
                         GUAR_START(o, n) /* more.set_all_states_startup <- more.tm_run */)
#define ANY_STEP(o, n) (BY_WORKER(o, n) || BY_OTHERS(o, n))

void harness(void)
{
  runtime_state_t o = nondet_i8(), m = nondet_i8(), n = nondet_i8();
  if (!(VALID(o) && VALID(m) && VALID(n))) return;

  /* 1. every guarantee is a set of edges of the transition graph */
  VX_ASSERT(VX_IMPLIES(ANY_STEP(o, n), GRAPH(o, n)), "every step any party may take is an edge of the runtime_state transition graph");
  VX_ASSERT(VX_IMPLIES(GUAR_STOPREQ(o, n) || GUAR_TERMREQ(o, n), GUAR_RAISE(o, n)), "stop / terminate requests are raises");

  /* 2. the property-level consequence: a worker that is `sleeping` is moved only to `running` -- by itself, after it has
   * been resumed -- or sees `stopping` / `terminating` raised; no other party skips it to `stopped` (or anywhere else) */
  VX_ASSERT(VX_IMPLIES(o == S_SLEEP && ANY_STEP(o, n), n == S_RUN || n == S_STOPPING || n == S_TERM),
            "a sleeping worker's word only moves to running, stopping or terminating");
  VX_ASSERT(VX_IMPLIES(o == S_SLEEP && BY_OTHERS(o, n), n == S_STOPPING || n == S_TERM),
            "nobody but the worker itself takes a sleeping worker's word back to running; others can only raise stopping / terminating");
  VX_ASSERT(VX_IMPLIES(o == S_SLEEP && n == S_RUN && ANY_STEP(o, n), GUAR_WORKER(o, n)),
            "sleeping -> running is the worker's own wake-up step (scheduler_base::suspend after a notification)");
  /* the same for a worker on its way to sleep */
  VX_ASSERT(VX_IMPLIES(o == S_PRE && BY_OTHERS(o, n), n == S_STOPPING || n == S_TERM),
            "a worker in pre_sleep is only told to stop / terminate by others");
  VX_ASSERT(VX_IMPLIES(o == S_PRE && BY_WORKER(o, n), n == S_SLEEP), "the worker leaves pre_sleep only by publishing sleeping");

  /* 3. `stopped` is stored only by the worker itself, only from stopping / terminating (its last step: more.loop_tail) */
  VX_ASSERT(VX_IMPLIES(n == S_STOPPED && ANY_STEP(o, n), GUAR_DOWN(o, n) && !BY_OTHERS(o, n)), "only the worker itself stores `stopped`");
  VX_ASSERT(VX_IMPLIES(ANY_STEP(o, m) && ANY_STEP(m, n) && o == S_SLEEP && n == S_STOPPED, (m == S_STOPPING || m == S_TERM) && GUAR_DOWN(m, n)),
            "from sleeping, `stopped` is reached only through a raised request followed by the worker's own final step");
  /* 4. a word leaves `stopped` only through the adder, and `initialized` only by coming up (or by being told to stop) */
  VX_ASSERT(VX_IMPLIES(o == S_STOPPED && ANY_STEP(o, n), GUAR_ADD(o, n)), "a stopped worker's word is only re-initialised (add_processing_unit)");
  VX_ASSERT(VX_IMPLIES(o == S_INIT && ANY_STEP(o, n), n == S_RUN || n == S_STOPPING || n == S_TERM), "initialized -> running | stopping | terminating");
  /* 5. nobody lowers a request: once stopping / terminating, the word only goes on to terminating / stopped */
  VX_ASSERT(VX_IMPLIES((o == S_STOPPING || o == S_TERM) && ANY_STEP(o, n), n > o), "a stop / terminate request is never taken back");

  /* 6. interference side conditions of the new units: the guarantees of the parties running concurrently with a unit
   * are inside that unit's rely */
  VX_ASSERT(VX_IMPLIES(AWAKE(o) && BY_OTHERS(o, n), RELY_AWAKE(o, n)),
            "an awake worker (loop fragments) tolerates requesters and raisers");
  VX_ASSERT(VX_IMPLIES(ANY_STEP(o, n) && !GUAR_ADD(o, n), RELY_LIVE(o, n)), "stop_locked / report_error tolerate every step except re-initialisation");
  VX_ASSERT(VX_IMPLIES(o <= S_RUN && (GUAR_START(o, n) || GUAR_UP(o, n)), RELY_STARTUP(o, n)), "start-up: starter and worker tolerate each other");
  VX_ASSERT(RELY_AWAKE(o, o) && RELY_LIVE(o, o) && RELY_NONE(o, o), "relies are reflexive");
  VX_ASSERT(VX_IMPLIES(RELY_AWAKE(o, m) && RELY_AWAKE(m, n), RELY_AWAKE(o, n)), "RELY_AWAKE is transitive");
  VX_ASSERT(VX_IMPLIES(RELY_LIVE(o, m) && RELY_LIVE(m, n), RELY_LIVE(o, n)), "RELY_LIVE is transitive");
  VX_ASSERT(VX_IMPLIES(AWAKE(o) && RELY_AWAKE(o, n), AWAKE(n)), "J1 (word of an awake worker) is stable under RELY_AWAKE");
  VX_ASSERT(VX_IMPLIES((o == S_STOPPING || o == S_TERM) && RELY_AWAKE(o, n), n == S_STOPPING || n == S_TERM), "J2 is stable under RELY_AWAKE");
  VX_ASSERT(VX_IMPLIES((o == S_PRE || o == S_STOPPING || o == S_TERM) && RELY_AWAKE(o, n), n == S_PRE || n == S_STOPPING || n == S_TERM), "J3 is stable under RELY_AWAKE");

  /* 7. observation O1, made precise: the raisers' guarantee contains a step that the worker-side rely of
   * scheduler_base::suspend (RELY_WORKER, unit state.sched_suspend) does NOT contain -- a stop / terminate request that
   * hits the word while it is pre_sleep -- and suspend's unconditional store of `sleeping` on top of it is not an edge */
  VX_ASSERT(VX_IMPLIES(GUAR_RAISE(o, n) && !RELY_WORKER(o, n), o == S_INIT || o == S_RUN || o == S_PRE),
            "the raisers' steps outside suspend's rely start from initialized / running / pre_sleep only");
  VX_ASSERT(!GRAPH(S_STOPPING, S_SLEEP) && !GRAPH(S_TERM, S_SLEEP), "storing `sleeping` over a raised request is not an edge of the graph");
  if (GUAR_STOPREQ(o, n) && o == S_PRE && !RELY_WORKER(o, n)) VX_REACH("o1_gap_stop_request_on_pre_sleep_is_outside_suspends_rely");
  if (GUAR_STOPREQ(o, n) && o == S_SLEEP && RELY_WORKER(o, n)) VX_REACH("stop_request_on_sleeping_worker_is_inside_suspends_rely");
  if (GUAR_STOPREQ(o, n) && o == S_RUN && !RELY_CYCLE(o, n)) VX_REACH("requesters_assume_no_concurrent_shutdown");
  if (BY_OTHERS(o, n) && o == S_SLEEP) VX_REACH("raise_on_sleeping_worker");
  if (GUAR_DOWN(o, n)) VX_REACH("final_step");
  if (GUAR_ADD(o, n)) VX_REACH("restart");
}
