#!/bin/bash
# specs/C19/mutfix.sh <repo-relative file> <python-regex> <replacement> [check args]
# Development aid, same contract as tools/mut.sh, but the scratch copy of /repo/libs FIRST receives the candidate repair
# of defect D6 (the two missing `return;` in scheduled_thread_pool::suspend_processing_unit_direct), so that mutants of
# the C19 units can be judged against a green baseline.  Pass NONE NONE NONE to run the repaired tree unmutated.
# Never touches /repo.
f=$1; pat=$2; rep=$3; shift 3
S=$(mktemp -d /tmp/vxmut.XXXXXX)
trap 'rm -rf "$S"' EXIT
cp -r /repo/libs "$S/libs"; ln -s /repo/_build "$S/_build"
python3 - "$S" "$f" "$pat" "$rep" <<'PY' || { echo "MUTATION DID NOT APPLY (regex must match exactly once)"; exit 9; }
import re,sys
S,f,pat,rep=sys.argv[1:5]
impl=S+"/libs/pika/thread_pools/include/pika/thread_pools/scheduled_thread_pool_impl.hpp"
s=open(impl).read()
t,n=re.subn(r'(does not support suspending processing units"\);)(\s*\}.*?thread stealing\)"\);)', r'\1 return;\2 return;', s, flags=re.S)
if n!=1: print("D6 repair did not apply"); sys.exit(1)
open(impl,'w').write(t)
if f!="NONE":
    s=open(S+"/"+f).read()
    n=len(re.findall(pat,s,flags=re.S))
    if n!=1: print("matches:",n); sys.exit(1)
    t=re.sub(pat,rep,s,count=1,flags=re.S)
    if t==s: sys.exit(1)
    open(S+"/"+f,'w').write(t)
PY
cd /verif && VX_REPO=$S VX_OUTDIR=$S/out VX_EVIDENCE_DIR=$S/ev VX_JOBS=${VX_JOBS:-4} ./check C19 "$@" | grep -E "FAILED|VIOLATION|UNDECIDED|undecided|KNOWN" | cut -c1-330
echo "exit=${PIPESTATUS[0]}"
