/* C19 (mutator closure of the per-worker runtime_state word) -- the life-cycle writers in scheduled_thread_pool:
 * add_processing_unit_internal, remove_processing_unit_internal, thread_func (start-up fragment), stop_locked, stop,
 * report_error, and scheduler_base::set_all_states for its start-up call site.  One template, one unit per U_<NAME>.
 * Same word model / victim abstraction as state.c (state.h); relations in more_rel.h.
 */
#include "c19.h"
#include "more_rel.h"

/* ---------------- per-unit guarantee / rely / order predicates ---------------- */
#if defined(U_ADD_PU)
/* adder: stopped -> initialized (a stutter on an initialized word), under the PU mutex, for a PU without a thread */
#define GUAR(o, n) GUAR_ADD(o, n)
#define RELY(o, n) RELY_NONE(o, n)
/* when the addressed unit is not the victim its word is abstract: the caller's duty holds for whichever unit is addressed */
#define OTHER_VALID(n) ((n) == S_STOPPED || (n) == S_INIT)
#define STEP_HOOK(o, n) do { \
    VX_ASSERT(g_v_pu_mtx.held == 1, "a processing unit is (re-)initialised only under its PU mutex"); \
    VX_ASSERT(!g_v_joinable, "a processing unit is (re-)initialised only while it has no worker thread"); \
    VX_ASSERT(g_refusals == 0 && !vx_exc, "no step after the request has been refused"); } while (0)
#define SPAWN_HOOK(i) do { if ((i) == g_v) { \
    VX_ASSERT(g_exchanged && g_v_state == S_INIT, "the worker thread is started only after its word has been set to initialized"); \
    VX_ASSERT(g_refusals == 0 && !vx_exc, "no worker is started after the request has been refused"); } } while (0)
#elif defined(U_REMOVE_PU)
/* remover: x -> stopping for x < stopping, nothing else (in particular it never stores `stopped`: only the worker does) */
#define GUAR(o, n) GUAR_STOPREQ(o, n)
/* the worker is alive and is being shut down: raisers and the worker's own final step run concurrently; a suspension in
 * flight is excluded (the PIKA_ASSERT on oldstate: caller's duty).  KNOWN_REMOVE_BOUNCE: until our exchange the word
 * stays at or below `stopping` (the worker has not finished / is not terminating yet). */
#define RELY_SHUTDOWN(o, n) ((n) == (o) || ((n) >= S_STOPPING && (o) < (n)))
/* when the addressed worker is not the victim its word is abstract: the caller's duty holds for whichever is addressed */
#define OTHER_VALID(n) ((n) == runtime_state_running || (n) == runtime_state_stopping || (n) == runtime_state_terminating || (n) == runtime_state_stopped)
#ifdef KNOWN_REMOVE_BOUNCE
#define RELY(o, n) (RELY_SHUTDOWN(o, n) && (g_exchanged || (n) <= S_STOPPING))
#else
#define RELY(o, n) RELY_SHUTDOWN(o, n)
#endif
#define STEP_HOOK(o, n) do { \
    VX_ASSERT(g_v_pu_mtx.held == 1, "the stop request is placed under the PU mutex"); \
    VX_ASSERT(g_v_joinable, "the stop request is placed only for a worker that has a (joinable) thread"); \
    VX_ASSERT(g_refusals == 0 && !vx_exc, "no step after the request has been refused"); } while (0)
/* the call has raised the word to `stopping` itself, or has last seen it at / above `stopping` */
#define STOP_PLACED ((lin_count >= 1 && lin_new == S_STOPPING) || (g_reads >= 1 && g_last_read >= S_STOPPING))
#define REMOVABLE(s) ((s) == S_RUN || (s) == S_STOPPING || (s) == S_TERM || (s) == S_STOPPED)
#define JOIN_HOOK() do { \
    VX_ASSERT(VX_IMPLIES(g_t_is_victim, STOP_PLACED), \
              "the worker is joined only after a stop request has been placed on (or seen in) its word"); } while (0)
#elif defined(U_TF_STARTUP)
/* worker start-up: initialized -> running (running -> running if the starter was faster) */
#define GUAR(o, n) GUAR_UP(o, n)
#define RELY(o, n) RELY_STARTUP(o, n)
#define OTHER_VALID(n) ((n) == runtime_state_initialized || (n) == runtime_state_running)
#define STEP_HOOK(o, n) do { } while (0)
#elif defined(U_TF_EXIT)
/* worker, after its scheduling loop has ended: no further write of its own.  The loop's final step (stub, contract of
 * more.loop_tail) is the only step.  Rely: nobody moves a word that is `stopped` while its thread still exists, and
 * `terminating` stays; -DEXPERIMENT_O2_BOUNCE adds the transient lowering terminating -> stopping of observation O2. */
#define GUAR(o, n) GUAR_DOWN(o, n)
#ifdef EXPERIMENT_O2_BOUNCE
#define RELY(o, n) ((n) == (o) || ((o) == S_TERM && (n) == S_STOPPING) || ((o) == S_STOPPING && (n) == S_TERM))
#else
#define RELY(o, n) RELY_NONE(o, n)
#endif
#define STEP_HOOK(o, n) do { } while (0)
/* a worker other than the victim: abstract word; the loop's contract holds for it as well */
#define OTHER_VALID(n) ((n) == runtime_state_stopped || (n) == runtime_state_terminating)
#elif defined(U_STOP_LOCKED)
#define GUAR(o, n) GUAR_STOPREQ(o, n)
#define RELY(o, n) RELY_LIVE(o, n)
#define STEP_HOOK(o, n) do { } while (0)
#elif defined(U_STOP)
#define GUAR(o, n) (0)
#define RELY(o, n) RELY_LIVE(o, n)
#define STEP_HOOK(o, n) do { } while (0)
#elif defined(U_REPORT_ERROR)
#define GUAR(o, n) GUAR_TERMREQ(o, n)
#define RELY(o, n) RELY_LIVE(o, n)
#define STEP_HOOK(o, n) do { } while (0)
#elif defined(U_SET_ALL_STARTUP)
/* set_all_states(running), call site thread_manager::run: only initialized -> running / running -> running */
#define GUAR(o, n) GUAR_START(o, n)
#define RELY(o, n) RELY_STARTUP(o, n)
#define STEP_HOOK(o, n) do { } while (0)
#endif

static int8_t g_first_seen;             /* first value of the victim word this call has seen */
static bool g_tf_victim;                /* U_TF_STARTUP: the worker under verification is the victim */
/* (`v` is the parameter of state.h's vx_seen, the only user of READ_HOOK) */
#define READ_HOOK() do { if (g_reads == 0) g_first_seen = v; if (lin_count >= 1) g_after_step = true; } while (0)
#ifndef JOIN_HOOK
#define JOIN_HOOK() do { } while (0)
#endif
#include "more_state.h"

static void throws_if(struct error_code *ec, pika_error errcode)
//@LIFT throws_if
/* scheduler_base::get_state / get_pu_mutex -- LIFTED (their PIKA_ASSERT is an obligation at every call) */
static runtime_state_t *get_state(struct scheduler *self, size_t num_thread)
//@LIFT get_state
static struct vx_mtx *get_pu_mutex(struct scheduler *self, size_t num_thread)
//@LIFT get_pu_mutex
static bool has_scheduler_mode(struct scheduler *self, scheduler_mode_t mode)
//@LIFT has_scheduler_mode

/* ---------------- environment of the pool members ---------------- */
static long g_thread_count;             /* std::atomic<long> thread_count_ */
static size_t g_thread_offset;          /* thread_offset_ */
static size_t get_worker_thread_num(void) { return nondet_size(); }
static struct error_code make_success_code(void) { struct error_code c; c.value = pika_error_success; return c; }
/* std::vector<std::thread> threads_: resize default-constructs (non-joinable) threads */
static void threads_resize(struct pool *p, size_t n)
{
  /* (slots below the addressed one are created too, under the addressed unit's mutex only: the vector itself is not
   * protected by the per-unit mutexes; in this tree add_processing_unit_internal is only called sequentially from run()) */
  if (g_v >= p->threads_size && g_v < n) g_v_joinable = false;
  p->threads_size = n;
}
static bool g_cleared;
static void threads_clear(struct pool *p) { p->threads_size = 0; g_cleared = true; }
/* the std::thread argument list of add_processing_unit_internal: thread_func(this, virt_core, thread_num, startup) */
static void thread_spawn_checked(struct pool *p, size_t i, struct pool *self_arg, size_t core_arg, size_t thread_num)
{
  VX_ASSERT(self_arg == p && core_arg == i, "the worker is started for this pool and for the processing unit whose slot it occupies");
  thread_spawn(p, i, thread_num);
}

/* ---- start-up barrier (environment stub): startup->wait() ---- */
static long g_barrier_waits;
static void startup_wait(void)
{
#ifdef U_TF_STARTUP
  VX_ASSERT(VX_IMPLIES(g_tf_victim, g_exchanged && lin_count + g_stutters == 1 && g_v_state == S_RUN),
            "the worker arrives at the start-up barrier only after it has published `running`");
#endif
  if (g_barrier_waits < 2) g_barrier_waits++;
}

/* ---- the thread manager's lock `Lock& l` of stop / stop_locked (environment stub) ---- */
struct tmlock { bool owns; };
static struct tmlock vx_tm;
static bool tm_owns(struct tmlock *l) { return l->owns; }
static void tm_unlock(struct tmlock *l) { VX_ASSERT(l->owns, "unlock_guard on a lock that is not owned"); l->owns = false; }
static void tm_relock(struct tmlock *l) { VX_ASSERT(!l->owns, "unlock_guard re-locks a lock that is owned"); l->owns = true; }

/* ---- T stubs of the callees of stop_locked / stop / report_error ---- */
static long g_wait_calls, g_ri_calls, g_raise_calls, g_dsw_calls, g_dsw_after_raise, g_rm_calls_v, g_rm_calls_o, g_sl_calls;
static bool g_ri_blocking, g_sl_blocking;
static struct error_code *g_ri_ec;
static runtime_state_t g_raise_arg;
static long g_base_report_calls, g_on_error_calls;
static void pool_wait(struct pool *self)
{
  VX_ASSERT(g_ri_calls == 0 && g_raise_calls == 0, "stop waits for the work to finish before anything else");
  if (g_wait_calls < 2) g_wait_calls++;
}
#if defined(U_STOP_LOCKED)
/* resume_internal (units state.resume_internal / state.resume_pu_direct): never writes a word; notifies every worker;
 * if blocking, returns after every joinable worker has been seen not `sleeping`; may throw */
static void resume_internal(struct pool *self, bool blocking, struct error_code *ec)
{
  VX_ASSERT(g_raise_calls == 0, "sleeping workers are woken before the stop request is raised");
  if (g_ri_calls < 2) g_ri_calls++;
  g_ri_blocking = blocking;
  g_ri_ec = ec;
  if (nondet_bool()) vx_throws_if(ec, pika_error_bad_parameter);
}
/* remove_processing_unit_internal (unit more.remove_pu): stop request + join; may throw */
static void remove_processing_unit_internal(struct pool *self, size_t virt_core)
{
  VX_ASSERT(!vx_exc, "no call while an exception is in flight");
  VX_ASSERT(virt_core < self->threads_size, "a worker of this pool is removed");
  VX_ASSERT(g_raise_calls == 1, "workers are joined only after the stop request has been raised for all of them");
  VX_ASSERT(!vx_tm.owns, "the thread manager's lock is released while a worker is joined");
  if (virt_core == g_v) { if (g_rm_calls_v < 2) g_rm_calls_v++; }
  else if (g_rm_calls_o < 2) g_rm_calls_o++;
  if (nondet_bool()) vx_throws_if(&vx_throws, pika_error_bad_parameter);
}
#endif
#if defined(U_STOP)
static void stop_locked(struct pool *self, struct tmlock *l, bool blocking)
{
  VX_ASSERT(l == &vx_tm && l->owns, "stop_locked is entered with the caller's lock owned");
  if (g_sl_calls < 2) g_sl_calls++;
  g_sl_blocking = blocking;
}
#endif
/* scheduler_base::set_all_states_at_least (unit state.set_all_states_at_least): every word below s is raised to s, at
 * most once, nothing else is written */
static void sched_set_all_states_at_least(struct scheduler *s, runtime_state_t st)
{
  VX_ASSERT(st == S_STOPPING || st == S_TERM, "set_all_states_at_least is used to raise to stopping / terminating only (precondition of its unit)");
#if defined(U_STOP_LOCKED)
  VX_ASSERT(g_ri_calls == 1, "the stop request is raised after the sleeping workers have been woken");
#endif
#if defined(U_REPORT_ERROR)
  VX_ASSERT(g_base_report_calls == 0 && g_on_error_calls == 0, "the workers are told to terminate before the error is reported");
#endif
  if (g_raise_calls < 2) g_raise_calls++;
  g_raise_arg = st;
  interfere(&g_v_state);
  vx_seen(g_v_state);
  if (g_v_state < st) { vx_step(g_v_state, st); g_v_state = st; }
}
static void sched_do_some_work(struct scheduler *s, size_t num_thread)
{
  if (g_dsw_calls < 2) g_dsw_calls++;
  if (g_raise_calls >= 1 && g_dsw_after_raise < 2) g_dsw_after_raise++;
}
static void base_report_error(struct pool *self, size_t global_thread_num) { if (g_base_report_calls < 2) g_base_report_calls++; }
static void sched_on_error(struct scheduler *s, size_t global_thread_num) { if (g_on_error_calls < 2) g_on_error_calls++; }

/* dfcc makes every static nondeterministic at the start of the harness: the whole ghost state is pinned here */
#define GHOST_ZERO (lin_count == 0 && g_reads == 0 && !g_interfered && g_yields == 0 && g_refusals == 0 && !vx_exc && \
                    g_v_notifies == 0 && g_o_notifies == 0 && g_waits == 0 && !g_join_seen && NO_LOCKS_HELD && \
                    g_stutters == 0 && !g_after_step && !g_exchanged && g_spawned_v == 0 && g_spawned_o == 0 && \
                    g_taken_v == 0 && g_taken_o == 0 && !g_t_is_victim && g_joins == 0 && g_barrier_waits == 0 && !g_cleared && \
                    g_wait_calls == 0 && g_ri_calls == 0 && g_raise_calls == 0 && g_dsw_calls == 0 && g_dsw_after_raise == 0 && \
                    g_rm_calls_v == 0 && g_rm_calls_o == 0 && g_sl_calls == 0 && g_base_report_calls == 0 && g_on_error_calls == 0)
#define M_PRE_COMMON(self) ((self) == vx_pool && (self)->sched_ != NULL && g_v < (self)->sched_->n && \
                            (self)->threads_size <= (self)->sched_->n && VALID(g_v_state) && GHOST_ZERO)
#define M_FRAME g_v_state, g_o_state, g_v_joinable, lin_count, lin_old, lin_new, lin_first_old, lin_first_new, g_last_read, \
                g_reads, g_interfered, g_v_pu_mtx, g_o_pu_mtx, g_v_susp_mtx, g_o_susp_mtx, g_yields, g_refusals, vx_exc, \
                g_thrown_code, vx_ec_obj, g_join_seen, g_stutters, g_after_step, g_exchanged, g_first_seen, g_spawned_v, g_spawned_o, \
                g_spawn_thread_num, g_state_at_spawn, g_taken_v, g_taken_o, g_t_is_victim, g_joins, g_barrier_waits, g_cleared, \
                g_wait_calls, g_ri_calls, g_ri_blocking, g_ri_ec, g_raise_calls, g_raise_arg, g_dsw_calls, g_dsw_after_raise, \
                g_rm_calls_v, g_rm_calls_o, g_sl_calls, g_sl_blocking, g_base_report_calls, g_on_error_calls, g_thread_count, \
                vx_tm

#ifdef U_ADD_PU
//@FUNC
void add_processing_unit_internal(struct pool *self, size_t virt_core, size_t thread_num, struct error_code *ec)
__CPROVER_requires(M_PRE_COMMON(self) && (ec == &vx_throws || ec == &vx_ec_obj))
/* caller's duty (PIKA_ASSERT of get_pu_mutex): the processing unit exists in the scheduler */
__CPROVER_requires(virt_core < self->sched_->n)
/* caller's duty (the PIKA_ASSERT on oldstate): a worker is started only on a processing unit whose word is `stopped`
 * (shut down completely) or `initialized` (never started); nobody else writes the word of such a unit (rely) */
__CPROVER_requires(g_v_state == S_STOPPED || g_v_state == S_INIT)
/* a unit that already has a worker thread is refused with an error: no step, no thread */
__CPROVER_ensures(g_refusals >= 1 ==> (lin_count == 0 && g_stutters == 0 && g_spawned_v == 0 && g_spawned_o == 0 && ERROR_VISIBLE(ec)))
/* otherwise: exactly one write, stopped -> initialized (or a stutter on initialized), on the addressed unit only, then
 * exactly one worker thread for that unit, started while the word is `initialized`, with the caller's thread number */
__CPROVER_ensures((g_refusals == 0 && virt_core == g_v) ==> (lin_count + g_stutters == 1 && g_spawned_v == 1 && g_spawned_o == 0 && \
    g_state_at_spawn == S_INIT && g_spawn_thread_num == thread_num && g_v_joinable))
__CPROVER_ensures(lin_count == 1 ==> (virt_core == g_v && lin_old == S_STOPPED && lin_new == S_INIT))
__CPROVER_ensures(virt_core != g_v ==> (lin_count == 0 && g_stutters == 0 && g_spawned_v == 0))
__CPROVER_ensures((g_refusals == 0 && virt_core != g_v) ==> g_spawned_o == 1)
/* success is reported through a caller-provided error_code */
__CPROVER_ensures((g_refusals == 0 && ec == &vx_ec_obj) ==> ec->value == pika_error_success)
/* the slot exists afterwards; the vector never outgrows the scheduler; no mutex is held at return */
__CPROVER_ensures(virt_core < self->threads_size && self->threads_size <= self->sched_->n)
__CPROVER_ensures(g_v_pu_mtx.held == 0 && g_o_pu_mtx.held == 0)
__CPROVER_assigns(M_FRAME, self->threads_size)
//@LIFT body
#endif

#ifdef U_REMOVE_PU
//@FUNC
void remove_processing_unit_internal(struct pool *self, size_t virt_core, struct error_code *ec)
__CPROVER_requires(M_PRE_COMMON(self) && (ec == &vx_throws || ec == &vx_ec_obj))
__CPROVER_requires(virt_core < self->sched_->n)
/* caller's duty (the PIKA_ASSERT on oldstate): the worker is up and neither suspending nor suspended (a sleeping worker
 * would never be joined); it may be shutting down already */
#ifdef KNOWN_REMOVE_BOUNCE
__CPROVER_requires(g_v_state == S_RUN || g_v_state == S_STOPPING)
#else
__CPROVER_requires(REMOVABLE(g_v_state))
#endif
/* a unit without a worker thread is refused with an error: no step, nothing joined */
__CPROVER_ensures(g_refusals >= 1 ==> (lin_count == 0 && g_stutters == 0 && g_taken_v == 0 && g_taken_o == 0 && g_joins == 0 && ERROR_VISIBLE(ec)))
/* own steps on the word: at most one, x -> stopping with x < stopping, on the addressed worker only; `stopped` is never
 * stored by the remover (only the worker itself does that) */
__CPROVER_ensures(lin_count <= 1 && (lin_count == 1 ==> (virt_core == g_v && GUAR_STOPREQ(lin_old, lin_new))))
__CPROVER_ensures(virt_core != g_v ==> (lin_count == 0 && g_stutters == 0 && g_taken_v == 0))
/* otherwise the worker's thread is taken out of the vector (under the PU mutex) and joined exactly once, after the stop
 * request was placed or seen (JOIN_HOOK), with no mutex held */
__CPROVER_ensures((g_refusals == 0 && virt_core == g_v) ==> (g_taken_v == 1 && g_taken_o == 0 && g_joins == 1 && !g_v_joinable && STOP_PLACED))
__CPROVER_ensures((g_refusals == 0 && virt_core != g_v) ==> (g_taken_o == 1 && g_joins == 1))
__CPROVER_ensures(g_v_pu_mtx.held == 0 && g_o_pu_mtx.held == 0)
__CPROVER_assigns(M_FRAME)
//@LIFT body
#endif

#ifdef U_TF_STARTUP
//@FUNC
void thread_func_startup(struct pool *self, size_t thread_num, size_t global_thread_num)
__CPROVER_requires(M_PRE_COMMON(self) && thread_num < self->sched_->n && global_thread_num < self->sched_->n && g_thread_count >= 0 && g_thread_count < 1000000 && g_tf_victim == (thread_num == g_v))
/* the worker was started by add_processing_unit_internal (word `initialized`); the starter may already have stored `running` */
__CPROVER_requires(thread_num == g_v ==> (g_v_state == S_INIT || g_v_state == S_RUN))
/* exactly one write, on the worker's own word: initialized -> running, or a stutter on running */
__CPROVER_ensures(thread_num == g_v ==> (lin_count + g_stutters == 1 && g_v_state == S_RUN))
__CPROVER_ensures(lin_count == 1 ==> (thread_num == g_v && lin_old == S_INIT && lin_new == S_RUN))
__CPROVER_ensures(thread_num != g_v ==> (lin_count == 0 && g_stutters == 0))
/* the worker is counted, and it arrives at the start-up barrier exactly once, after the write (startup_wait) */
__CPROVER_ensures(g_barrier_waits == 1 && g_thread_count == __CPROVER_old(g_thread_count) + 1)
__CPROVER_assigns(M_FRAME)
{
//@LIFT body
}
#endif

#ifdef U_TF_EXIT
static long g_loop_calls;
static int g_exit_kind;                 /* 1: the loop ended with its final store, 2: it ended on a terminate request */
static size_t g_loop_arg;
/* scheduling_loop(thread_num, ...) -- CONTRACT stub (units more.loop_top / more.loop_sleep / more.loop_tail): the loop ends
 * only (1) right after the worker's final step stopping | terminating -> stopped, or (2) after it has read `terminating`
 * from its word, which it leaves as it is */
static void scheduling_loop_stub(struct pool *self, size_t num_thread)
{
  if (g_loop_calls < 2) g_loop_calls++;
  g_loop_arg = num_thread;
  if (num_thread != g_v) return;
  if (nondet_bool())
  {
    runtime_state_t o = nondet_i8();
    VX_ASSUME(o == S_STOPPING || o == S_TERM); /* postcondition of more.loop_tail: the final step starts from stopping | terminating */
    vx_step(o, S_STOPPED);
    g_v_state = S_STOPPED;
    g_exit_kind = 1;
  }
  else { g_v_state = S_TERM; g_exit_kind = 2; }
}
static int64_t sched_get_thread_count3(struct scheduler *s, int state, int priority, size_t num_thread) { int64_t r = nondet_i64(); VX_ASSUME(r >= 0); /* a count */ return r; }
static int64_t sched_get_queue_length(struct scheduler *s, size_t num_thread) { int64_t r = nondet_i64(); VX_ASSUME(r >= 0); /* a length */ return r; }
enum { thread_schedule_state_suspended = 3, thread_priority_default = 0 };
//@FUNC
void thread_func_exit(struct pool *self, size_t thread_num, size_t global_thread_num)
__CPROVER_requires(M_PRE_COMMON(self) && thread_num < self->sched_->n && global_thread_num < self->sched_->n && g_loop_calls == 0 && g_exit_kind == 0)
/* the loop is run once, for this worker; after it the worker only looks at its word (the PIKA_ASSERT, an obligation
 * here) and never writes it again: the final store inside the loop was its last step */
__CPROVER_ensures(g_loop_calls == 1 && g_loop_arg == thread_num)
__CPROVER_ensures(thread_num == g_v ==> (lin_count == (g_exit_kind == 1 ? 1 : 0) && g_stutters == 0))
__CPROVER_ensures(thread_num != g_v ==> lin_count == 0)
__CPROVER_assigns(M_FRAME, g_loop_calls, g_exit_kind, g_loop_arg)
{
//@LIFT body
}
#endif

#ifdef U_STOP_LOCKED
//@FUNC
void stop_locked(struct pool *self, struct tmlock *l, bool blocking)
__CPROVER_requires(M_PRE_COMMON(self) && l == &vx_tm && l->owns)
/* a pool without workers: nothing happens */
__CPROVER_ensures(__CPROVER_old(self->threads_size) == 0 ==> (g_wait_calls == 0 && g_ri_calls == 0 && g_raise_calls == 0 && g_dsw_calls == 0 && \
    lin_count == 0 && g_rm_calls_v == 0 && g_rm_calls_o == 0 && !g_cleared))
/* own steps on a worker's word: at most one, x -> stopping with x < stopping (through set_all_states_at_least) */
__CPROVER_ensures(lin_count <= 1 && (lin_count == 1 ==> GUAR_STOPREQ(lin_old, lin_new)))
/* otherwise, in this order (asserted by the stubs): wait() iff blocking; resume_internal(blocking, throws) once;
 * set_all_states_at_least(stopping) once; do_some_work afterwards */
__CPROVER_ensures(__CPROVER_old(self->threads_size) != 0 ==> (g_wait_calls == (blocking ? 1 : 0) && g_ri_calls == 1 && g_ri_blocking == blocking && g_ri_ec == &vx_throws))
__CPROVER_ensures((__CPROVER_old(self->threads_size) != 0 && g_raise_calls == 0) ==> vx_exc)
__CPROVER_ensures(g_raise_calls <= 1 && (g_raise_calls == 1 ==> (g_raise_arg == S_STOPPING && g_dsw_after_raise >= 1)))
/* blocking: every worker seen joinable is removed (stop request + join) exactly once, with the caller's lock released
 * during the call, then the thread vector is cleared; non-blocking: nobody is removed */
__CPROVER_ensures((!vx_exc && blocking && __CPROVER_old(self->threads_size) != 0) ==> \
    (g_rm_calls_v == ((g_v < __CPROVER_old(self->threads_size) && g_join_seen) ? 1 : 0) && g_cleared && self->threads_size == 0))
__CPROVER_ensures(!blocking ==> (g_rm_calls_v == 0 && g_rm_calls_o == 0 && !g_cleared && self->threads_size == __CPROVER_old(self->threads_size)))
/* the caller's lock is owned again at return, also when a callee threw */
__CPROVER_ensures(l->owns)
__CPROVER_assigns(M_FRAME, self->threads_size)
//@LIFT body
#endif

#ifdef U_STOP
//@FUNC
void stop(struct pool *self, struct tmlock *l, bool blocking)
__CPROVER_requires(M_PRE_COMMON(self) && l == &vx_tm && l->owns)
__CPROVER_ensures(g_sl_calls == 1 && g_sl_blocking == blocking && lin_count == 0 && g_reads == 0)
__CPROVER_assigns(M_FRAME)
//@LIFT body
#endif

#ifdef U_REPORT_ERROR
//@FUNC
void report_error(struct pool *self, size_t global_thread_num)
__CPROVER_requires(M_PRE_COMMON(self))
/* every worker is told to terminate (x -> terminating, x < terminating), exactly once, before the error is handed on */
__CPROVER_ensures(g_raise_calls == 1 && g_raise_arg == S_TERM && g_base_report_calls == 1 && g_on_error_calls == 1)
__CPROVER_ensures(lin_count <= 1 && (lin_count == 1 ==> GUAR_TERMREQ(lin_old, lin_new)))
__CPROVER_ensures(lin_count == 0 ==> g_last_read >= S_TERM)
__CPROVER_assigns(M_FRAME)
//@LIFT body
#endif

#ifdef U_SET_ALL_STARTUP
#define S_PRE_SCHED(self) ((self) == vx_pool->sched_ && g_v < (self)->n && VALID(g_v_state) && GHOST_ZERO)
//@FUNC
void set_all_states(struct scheduler *self, runtime_state_t s)
__CPROVER_requires(S_PRE_SCHED(self))
/* call site thread_manager::run (unit more.tm_run): set_all_states(running) after pool->run() returned true, i.e. after
 * every worker passed the start-up barrier; a worker's word is then `running` (`initialized` before its start-up step) */
__CPROVER_requires(s == S_RUN && (g_v_state == S_INIT || g_v_state == S_RUN))
__CPROVER_ensures(lin_count >= 1 && lin_new == S_RUN && (lin_old == S_INIT || lin_old == S_RUN) && g_v_state == S_RUN)
__CPROVER_assigns(M_FRAME)
//@LIFT body
#endif

void harness(void)
{
  struct pool p;
  struct scheduler s;
  s.n = nondet_size();
  s.mode_ = nondet_u32();
  p.sched_ = &s;
  p.threads_size = nondet_size();
  vx_pool = &p;
  g_v = nondet_size();
  g_v_state = nondet_i8();
  g_v_joinable = nondet_bool();
  vx_ec_obj.value = nondet_int();
  env_self_ptr = nondet_bool();
  env_cur_pool = nondet_bool() ? &p : &vx_other_pool;
  g_thread_offset = nondet_size();
  g_thread_count = nondet_long();
  vx_tm.owns = true;
  struct error_code *ec = nondet_bool() ? &vx_throws : &vx_ec_obj;
  size_t core = nondet_size();
  size_t tnum = nondet_size();
  size_t size0 = p.threads_size;
#ifdef U_ADD_PU
  add_processing_unit_internal(&p, core, tnum, ec);
  if (g_refusals == 0 && core == g_v && lin_count == 1) VX_REACH("restarted_from_stopped");
  if (g_refusals == 0 && core == g_v && g_stutters == 1) VX_REACH("started_from_initialized");
  if (g_refusals == 0 && core == g_v && p.threads_size > size0) VX_REACH("vector_grown");
  if (g_refusals >= 1 && ec == &vx_ec_obj) VX_REACH("refused_through_error_code");
  if (g_refusals >= 1 && ec == &vx_throws) VX_REACH("refused_by_exception");
  if (g_refusals == 0 && core != g_v) VX_REACH("other_unit");
#endif
#ifdef U_REMOVE_PU
  remove_processing_unit_internal(&p, core, ec);
  if (g_refusals == 0 && core == g_v && lin_count == 1 && lin_old == S_RUN) VX_REACH("stop_requested_for_running_worker");
  if (g_refusals == 0 && core == g_v && lin_count == 0 && g_first_seen == S_STOPPING) VX_REACH("already_stopping");
#ifndef KNOWN_REMOVE_BOUNCE
  if (g_refusals == 0 && core == g_v && g_first_seen == S_STOPPED) VX_REACH("already_stopped");
  if (g_refusals == 0 && core == g_v && g_first_seen == S_TERM) VX_REACH("already_terminating");
#endif
  if (g_refusals == 0 && core == g_v && g_interfered) VX_REACH("raced_with_shutdown");
  if (g_refusals >= 1 && ec == &vx_ec_obj) VX_REACH("refused_through_error_code");
  if (g_refusals >= 1 && ec == &vx_throws) VX_REACH("refused_by_exception");
  if (g_refusals == 0 && core != g_v) VX_REACH("other_worker");
  if (g_yields >= 1) VX_REACH("waited_for_own_worker_thread");
#endif
#ifdef U_TF_STARTUP
  g_tf_victim = (core == g_v);
  thread_func_startup(&p, core, tnum);
  if (core == g_v && lin_count == 1) VX_REACH("came_up_from_initialized");
  if (core == g_v && g_stutters == 1) VX_REACH("starter_was_faster");
  if (core != g_v) VX_REACH("other_worker");
#endif
#ifdef U_TF_EXIT
  g_loop_calls = 0; g_exit_kind = 0;
  thread_func_exit(&p, core, tnum);
  if (core == g_v && g_exit_kind == 1) VX_REACH("ended_stopped");
  if (core == g_v && g_exit_kind == 2) VX_REACH("ended_on_terminate_request");
  if (core != g_v) VX_REACH("other_worker");
#endif
#ifdef U_STOP_LOCKED
  bool blocking = nondet_bool();
  g_join_seen = false;
  stop_locked(&p, &vx_tm, blocking);
  if (size0 == 0) VX_REACH("no_workers");
  if (!vx_exc && size0 != 0 && blocking && g_rm_calls_v == 1) VX_REACH("blocking_victim_removed");
  if (!vx_exc && size0 != 0 && blocking && g_v < size0 && g_rm_calls_v == 0) VX_REACH("blocking_victim_not_joinable");
  if (!vx_exc && size0 != 0 && !blocking) VX_REACH("non_blocking");
  if (lin_count == 1 && lin_old == S_SLEEP) VX_REACH("raised_on_sleeping_worker");
  if (lin_count == 1 && lin_old == S_PRE) VX_REACH("raised_on_worker_about_to_sleep");
  /* (the stubs assert that resume_internal precedes the raise: nothing notifies suspend_conds_ after it -- observation O1') */
  if (lin_count == 1 && lin_old == S_SLEEP && blocking && g_rm_calls_v == 1) VX_REACH("blocking_raise_on_sleeping_worker_then_joined_without_notification");
  if (lin_count == 1 && lin_old == S_RUN) VX_REACH("raised_on_running_worker");
  if (g_raise_calls == 1 && lin_count == 0) VX_REACH("already_at_least_stopping");
  if (vx_exc && g_raise_calls == 0) VX_REACH("resume_threw");
  if (vx_exc && g_raise_calls == 1) VX_REACH("remove_threw");
#endif
#ifdef U_STOP
  bool blocking = nondet_bool();
  stop(&p, &vx_tm, blocking);
  VX_REACH("forwarded");
#endif
#ifdef U_REPORT_ERROR
  report_error(&p, tnum);
  if (lin_count == 1 && lin_old == S_STOPPING) VX_REACH("stopping_raised_to_terminating");
  if (lin_count == 1 && lin_old == S_SLEEP) VX_REACH("sleeping_raised_to_terminating");
  if (lin_count == 0 && g_last_read == S_STOPPED) VX_REACH("stopped_left_alone");
#endif
#ifdef U_SET_ALL_STARTUP
  set_all_states(&s, nondet_i8());
  VX_REACH("all_set");
  if (g_interfered) VX_REACH("worker_started_meanwhile");
#endif
}
