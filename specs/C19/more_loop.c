/* C19 (mutator closure) -- the steps of scheduling_loop() on the worker's own runtime_state word, as fragment units.
 *
 * The loop touches the word at six textual sites (census `scheduling_loop this_state sites`):
 *   L266  std::atomic<runtime_state>& this_state = scheduler.get_state(num_thread);
 *   L290  bool running = this_state.load(relaxed) < runtime_state::pre_sleep;          fragment TOP   (U_LOOP_TOP)
 *   L528  if (this_state.load() == runtime_state::pre_sleep) { if (can_exit) suspend(num_thread); } else {...may_exit...}
 *                                                                                       fragment SLEEP (U_LOOP_SLEEP)
 *   L561  if (this_state.load() == runtime_state::terminating) break;                  \
 *   L578  PIKA_ASSERT(this_state.load() != runtime_state::pre_sleep);                   } fragment TAIL (U_LOOP_TAIL)
 *   L590  this_state.store(runtime_state::stopped); break;                             /
 * and the variables `running` / `may_exit` that guard the final store are written only in these fragments and at
 * `may_exit = false` (L275 initialisation, L311 when a thread was found) -- census `scheduling_loop may_exit writes`.
 *
 * Loop invariant carried from fragment to fragment (each unit: requires J ... ensures J):
 *   J1  AWAKE(word)                 the word of a worker inside its loop is running | pre_sleep | stopping | terminating
 *   J2  may_exit ==> word is stopping | terminating
 *   J3  !running ==> word is pre_sleep | stopping | terminating          (from TOP until SLEEP)
 * All three are stable under the rely of an awake worker (RELY_AWAKE: requesters running -> pre_sleep, raisers x -> stopping /
 * terminating).  J1 /\ J2 hold when the loop is entered (word `running` after thread_func's start-up step, may_exit == false).
 * Consequence proved in TAIL: the final store is stopping -> stopped or terminating -> stopped, is followed by `break`
 * with no further access to the word, and is made only when the worker has nothing left.
 */
#include "c19.h"
#include "more_rel.h"

#if defined(U_LOOP_TAIL)
#define GUAR(o, n) GUAR_DOWN(o, n)
#else
#define GUAR(o, n) (0)                  /* TOP and SLEEP never write the word themselves (suspend() is a callee) */
#endif
#define RELY(o, n) RELY_AWAKE(o, n)
#define STEP_HOOK(o, n) do { VX_ASSERT(g_step_ok_now(), "the worker stores `stopped` only when it has nothing left: not running, may_exit, " \
    "terminated threads cleaned up, no suspended threads, own queues empty"); } while (0)
static bool g_step_ok_now(void);
#define READ_HOOK() do { if (lin_count >= 1) g_after_step = true; } while (0)
#include "more_state.h"

static void throws_if(struct error_code *ec, pika_error errcode)
//@LIFT throws_if

#define J1 AWAKE(g_v_state)
#define J2 (!may_exit || g_v_state == S_STOPPING || g_v_state == S_TERM)
#define J3(running) ((running) || g_v_state == S_PRE || g_v_state == S_STOPPING || g_v_state == S_TERM)

/* ---- loop state (free variables of the fragments) ---- */
static int64_t idle_loop_count, busy_loop_count, params_max_idle_loop_count, params_max_busy_loop_count;
static size_t added;
static bool may_exit;
static runtime_state_t *vx_ref_this_state;   /* std::atomic<runtime_state>& this_state = scheduler.get_state(num_thread) */
static int context_storage;
enum { thread_schedule_state_suspended = 3, thread_priority_default = 0 };

/* ---- environment: callbacks and SchedulingPolicy callees (T stubs with ghost records) ---- */
static size_t g_num_thread;             /* the worker running the loop */
static bool g_running_arg, g_may_exit0;
static long g_wait_calls, g_cleanup_calls, g_qlen_calls, g_suspend_calls, g_outer_calls, g_cnt_calls;
static bool g_cleaned;                  /* last result of cleanup_terminated(num_thread, true) / cleanup_terminated(true) */
static int64_t g_qlen_seen;             /* last result of get_queue_length(num_thread) (-1: not asked about this worker) */
static int64_t g_susp_seen;             /* last result of get_thread_count(suspended, default, num_thread) (-1: not asked) */
static bool g_wait_result, g_broke;
static bool outer_empty(void) { return nondet_bool(); }
static void outer_call(void) { if (g_outer_calls < 2) g_outer_calls++; }
static int get_agent_storage(void) { return nondet_int(); }
static bool custom_polling_busy(void) { return nondet_bool(); }
static bool sp_wait_or_add_new(size_t num_thread, bool running, int64_t *idle, bool enable_stealing, size_t *added_p)
{
  VX_ASSERT(num_thread == g_num_thread, "wait_or_add_new: asked about this worker");
  if (g_wait_calls < 2) g_wait_calls++;
  *added_p = nondet_size();
  g_wait_result = nondet_bool();
  return g_wait_result;
}
/* cleanup_terminated(num_thread, delete_all) */
static bool sp_cleanup_terminated(size_t num_thread, bool delete_all)
{
  if (g_cleanup_calls < 2) g_cleanup_calls++;
  g_cleaned = nondet_bool() && num_thread == g_num_thread && delete_all;
  return g_cleaned || (nondet_bool() && !(num_thread == g_num_thread && delete_all));
}
/* cleanup_terminated(delete_all): all queues, this worker's included */
static bool sp_cleanup_terminated_all(bool delete_all)
{
  if (g_cleanup_calls < 2) g_cleanup_calls++;
  g_cleaned = nondet_bool() && delete_all;
  return g_cleaned || (nondet_bool() && !delete_all);
}
static int64_t sp_get_queue_length(size_t num_thread)
{
  int64_t r = nondet_i64();
  VX_ASSUME(r >= 0); /* a queue length */
  if (g_qlen_calls < 2) g_qlen_calls++;
  g_qlen_seen = (num_thread == g_num_thread) ? r : -1;
  return r;
}
static int64_t sp_get_thread_count(int state, int priority, size_t num_thread)
{
  int64_t r = nondet_i64();
  VX_ASSUME(r >= 0); /* a thread count */
  if (g_cnt_calls < 2) g_cnt_calls++;
  g_susp_seen = (num_thread == g_num_thread && state == thread_schedule_state_suspended && priority == thread_priority_default) ? r : -1;
  return r;
}
/* scheduler_base::suspend(num_thread) -- contract proved by state.sched_suspend: called with the word in pre_sleep; the
 * worker publishes pre_sleep -> sleeping, blocks, and after waking steps sleeping -> running only from sleeping: at return
 * the word is `running` or a stop / terminate request is standing (stopping | terminating) */
static void sp_suspend(size_t num_thread)
{
  VX_ASSERT(num_thread == g_num_thread, "the worker suspends itself, not another worker");
  VX_ASSERT(g_v_state == S_PRE, "suspend() is entered with the worker's word in pre_sleep (precondition of state.sched_suspend)");
  if (g_suspend_calls < 2) g_suspend_calls++;
  runtime_state_t n = nondet_i8();
  VX_ASSUME(n == S_RUN || n == S_STOPPING || n == S_TERM); /* postcondition of state.sched_suspend (woke_up_running / _stopping / _terminating) */
  g_v_state = n;
}
static bool g_step_ok_now(void)
{
  return !g_running_arg && g_may_exit0 && g_cleanup_calls >= 1 && g_cleaned && g_cnt_calls >= 1 && g_susp_seen == 0 &&
         g_qlen_calls >= 1 && g_qlen_seen == 0;
}

#define ML_GHOST_ZERO (g_wait_calls == 0 && g_cleanup_calls == 0 && g_qlen_calls == 0 && g_suspend_calls == 0 && g_outer_calls == 0 && \
                       g_cnt_calls == 0 && lin_count == 0 && g_reads == 0 && !g_interfered && !g_cleaned && g_qlen_seen == -1 && \
                       g_susp_seen == -1 && !g_wait_result && !g_broke && !g_after_step && g_stutters == 0 && !g_exchanged)
#define ML_PRE(num_thread) ((num_thread) == g_num_thread && (num_thread) == g_v && vx_ref_this_state == &g_v_state && ML_GHOST_ZERO)
#define ML_FRAME idle_loop_count, busy_loop_count, added, may_exit, context_storage, g_wait_calls, g_cleanup_calls, g_qlen_calls, \
                 g_suspend_calls, g_outer_calls, g_cnt_calls, g_cleaned, g_qlen_seen, g_susp_seen, g_wait_result, g_broke, \
                 g_v_state, g_o_state, lin_count, lin_old, lin_new, lin_first_old, lin_first_new, g_last_read, g_reads, \
                 g_interfered, g_after_step, g_stutters, g_exchanged

#ifdef U_LOOP_TOP
//@FUNC
bool loop_top(size_t num_thread)
__CPROVER_requires(ML_PRE(num_thread) && J1 && J2)
/* `running` is decided by one look at the worker's own word; nothing is written */
__CPROVER_ensures(lin_count == 0 && g_reads == 1 && __CPROVER_return_value == (g_last_read < S_PRE))
__CPROVER_ensures(J1 && J2 && J3(__CPROVER_return_value))
__CPROVER_assigns(ML_FRAME)
{
//@LIFT body
  return running;
}
#endif

#ifdef U_LOOP_SLEEP
//@FUNC
void loop_sleep(size_t num_thread, bool running, bool enable_stealing_staged)
__CPROVER_requires(ML_PRE(num_thread) && running == g_running_arg && may_exit == g_may_exit0 && J1 && J2 && J3(running))
/* the fragment itself never writes the word; may_exit is raised only when the word was seen outside the hand-shake
 * cycle (a stop / terminate request is standing), and the invariant is handed on */
__CPROVER_ensures(lin_count == 0 && g_suspend_calls <= 1)
__CPROVER_ensures((may_exit && !g_may_exit0) ==> (!running && g_suspend_calls == 0 && g_reads >= 1 && (g_last_read == S_STOPPING || g_last_read == S_TERM)))
__CPROVER_ensures(J1 && J2)
__CPROVER_assigns(ML_FRAME)
{
//@LIFT body
}
#endif

#ifdef U_LOOP_TAIL
//@FUNC
void loop_tail(size_t num_thread, bool running)
__CPROVER_requires(ML_PRE(num_thread) && running == g_running_arg && may_exit == g_may_exit0 && J1 && J2)
__CPROVER_requires(idle_loop_count >= 0 && busy_loop_count >= 0)
/* at most one step, and it is the worker's final one: stopping -> stopped or terminating -> stopped, immediately followed
 * by leaving the loop, with no further access to the word; made only if the worker has nothing left (STEP_HOOK) */
__CPROVER_ensures(lin_count <= 1 && (lin_count == 1 ==> (GUAR_DOWN(lin_old, lin_new) && g_broke && !g_after_step && g_v_state == S_STOPPED)))
/* the only other way out of the loop is a terminate request seen in the word (which is then left as it is) */
__CPROVER_ensures((g_broke && lin_count == 0) ==> (g_last_read == S_TERM && g_reads == 1))
/* a worker that was told to stop and has seen that it has nothing left does end (so that it can be joined) */
__CPROVER_ensures((g_may_exit0 && !running && g_cleanup_calls >= 1 && g_cleaned && g_cnt_calls >= 1 && g_susp_seen == 0 && g_qlen_calls >= 1 && g_qlen_seen == 0) ==> lin_count == 1)
/* otherwise the loop goes on with the invariant intact */
__CPROVER_ensures(!g_broke ==> (J1 && J2))
__CPROVER_assigns(ML_FRAME)
{
//@LIFT body
}
#endif

void harness(void)
{
  g_num_thread = nondet_size();
  g_v = g_num_thread;
  g_v_state = nondet_i8();
  vx_ref_this_state = &g_v_state;
  g_running_arg = nondet_bool();
  idle_loop_count = nondet_i64();
  busy_loop_count = nondet_i64();
  params_max_idle_loop_count = nondet_i64();
  params_max_busy_loop_count = nondet_i64();
  added = nondet_size();
  may_exit = nondet_bool();
  g_may_exit0 = may_exit;
  context_storage = 0;
  g_cleaned = false; g_qlen_seen = -1; g_susp_seen = -1; g_wait_result = false; g_broke = false; g_after_step = false;
  g_wait_calls = 0; g_cleanup_calls = 0; g_qlen_calls = 0; g_suspend_calls = 0; g_outer_calls = 0; g_cnt_calls = 0;
  lin_count = 0; g_reads = 0; g_interfered = false; g_stutters = 0; g_exchanged = false;
#ifdef U_LOOP_TOP
  bool r = loop_top(g_num_thread);
  if (r) VX_REACH("running");
  if (!r && g_v_state == S_PRE) VX_REACH("suspension_requested");
  if (!r && g_v_state == S_STOPPING) VX_REACH("stop_requested");
  if (!r && g_interfered) VX_REACH("request_arrived_just_before_the_look");
#endif
#ifdef U_LOOP_SLEEP
  loop_sleep(g_num_thread, g_running_arg, nondet_bool());
  if (g_suspend_calls == 1 && g_v_state == S_RUN) VX_REACH("slept_and_resumed");
  if (g_suspend_calls == 1 && g_v_state == S_STOPPING) VX_REACH("slept_and_woke_up_stopping");
  if (may_exit && !g_may_exit0) VX_REACH("may_exit_raised");
  if (!g_wait_result) VX_REACH("more_work");
  if (g_wait_result && g_running_arg) VX_REACH("still_running");
#endif
#ifdef U_LOOP_TAIL
  loop_tail(g_num_thread, g_running_arg);
  if (lin_count == 1 && lin_old == S_STOPPING) VX_REACH("stopped_after_stop_request");
  if (lin_count == 1 && lin_old == S_TERM) VX_REACH("stopped_after_terminate_request");
  if (g_broke && lin_count == 0) VX_REACH("left_on_terminate_request");
  if (!g_broke && g_may_exit0 && !may_exit) VX_REACH("may_exit_withdrawn");
  if (!g_broke && may_exit) VX_REACH("may_exit_kept_busy_count_reset");
  if (!g_broke && !g_may_exit0 && g_outer_calls == 1) VX_REACH("idle_callback");
  if (!g_broke && !g_may_exit0 && g_cleanup_calls == 1) VX_REACH("periodic_cleanup");
#endif
}
