/* C19 -- common types, ghost state and environment stubs for the suspend/resume units.
 *
 * Object model (C view of scheduled_thread_pool<Scheduler> / scheduler_base):
 *   struct pool       threads_ (std::vector<std::thread>: only size() and joinable() are observed), sched_
 *   struct scheduler  states_[] (std::atomic<runtime_state> per worker), pu_mtxs_[], suspend_mtxs_[], suspend_conds_[],
 *                     mode_ (scheduler_mode bits)
 * "No quantifiers: ghost index instead" (DESIGN 3.3): ONE symbolic worker g_v (the victim, chosen by the harness, any
 * value < n) is represented precisely: its state word, its PU mutex, its std::thread.  Every other worker is abstract:
 * reads of its state word / joinable() yield arbitrary values, writes to it are dropped, try_lock on its mutex succeeds
 * or fails arbitrarily.  Because g_v is arbitrary, every per-worker obligation proved for g_v holds for every worker.
 * The vectors have a symbolic length n (no bound other than n <= SIZE_MAX / 2).
 */
#ifndef C19_H
#define C19_H
#include "vx.h"

/* ---- pika::runtime_state : std::int8_t (scheduler_state.hpp) ---- */
typedef int8_t runtime_state_t;
enum {
  runtime_state_invalid = -1, runtime_state_initialized = 0, runtime_state_first_valid_runtime = 0,
  runtime_state_pre_startup = 1, runtime_state_startup = 2, runtime_state_pre_main = 3, runtime_state_starting = 4,
  runtime_state_running = 5, runtime_state_suspended = 6, runtime_state_pre_sleep = 7, runtime_state_sleeping = 8,
  runtime_state_pre_shutdown = 9, runtime_state_shutdown = 10, runtime_state_stopping = 11,
  runtime_state_terminating = 12, runtime_state_stopped = 13, runtime_state_last_valid_runtime = 13 };
/* ---- pika::threads::scheduler_mode : std::uint32_t (scheduler_mode.hpp) ---- */
typedef uint32_t scheduler_mode_t;
enum {
  scheduler_mode_nothing_special = 0x000, scheduler_mode_reduce_thread_priority = 0x001,
  scheduler_mode_enable_elasticity = 0x002, scheduler_mode_enable_stealing = 0x004,
  scheduler_mode_enable_stealing_numa = 0x008, scheduler_mode_assign_work_round_robin = 0x010,
  scheduler_mode_assign_work_thread_parent = 0x020, scheduler_mode_steal_high_priority_first = 0x040,
  scheduler_mode_steal_after_local = 0x080, scheduler_mode_enable_idle_backoff = 0x100 };
/* ---- pika::error (error.hpp) ---- */
typedef int pika_error;
enum { pika_error_success = 0, pika_error_no_success = 1, pika_error_invalid_status = 4, pika_error_bad_parameter = 5 };

struct error_code { pika_error value; };
struct scheduler { size_t n; scheduler_mode_t mode_; };
struct pool { struct scheduler *sched_; size_t threads_size; };

static struct pool *vx_pool;          /* `this` of the call under verification */
static struct pool vx_other_pool;     /* some other pool */
static struct error_code vx_throws;   /* pika::throws: the sentinel that selects "throw" instead of "set ec" */
static struct error_code vx_ec_obj;   /* a caller-provided error_code object */

/* ---- exceptions (trusted lowering): `throw` sets vx_exc; every may-throw call site is followed, by rule, with
 *      `if (vx_exc) return;` (before RAII lowering, so that destructors are run on the exceptional path) ---- */
static bool vx_exc;
static pika_error g_thrown_code;
static long g_refusals;               /* number of PIKA_THROWS_IF executed by the call under verification */
static void vx_throw_exception(pika_error errcode) { vx_exc = true; g_thrown_code = errcode; }
static struct error_code make_error_code(pika_error e) { struct error_code c; c.value = e; return c; }

/* pika::detail::throws_if (errors/src/throw_exception.cpp) -- LIFTED: decides between throwing and setting ec */
static void throws_if(struct error_code *ec, pika_error errcode);   /* body spliced into the template: //@LIFT throws_if */

/* PIKA_THROWS_IF(ec, code, f, msg) -> vx_throws_if(ec, code): ghost count + the real throws_if */
static void vx_throws_if(struct error_code *ec, pika_error errcode)
{
  if (g_refusals < 2) g_refusals++;   /* saturating ghost: 0, 1, many */
  throws_if(ec, errcode);
}

/* ---- environment of the *_direct entry points: who is calling, and the scheduler mode (stable during the call:
 *      listed as an assumption) ---- */
static bool env_self_ptr;             /* threads::detail::get_self_ptr() != nullptr: the caller is a pika task */
static struct pool *env_cur_pool;     /* pika::this_thread::get_pool() */
static bool get_self_ptr(void) { return env_self_ptr; }
static struct pool *this_thread_get_pool(void) { return env_cur_pool; }
static struct scheduler *get_scheduler(struct pool *p) { return p->sched_; }

/* scheduler_base::has_scheduler_mode -- LIFTED */
static bool has_scheduler_mode(struct scheduler *self, scheduler_mode_t mode);   /* //@LIFT has_scheduler_mode */
static scheduler_mode_t atomic_load_mode(scheduler_mode_t *p) { return *p; }

#define UNSUPPORTED_NO_ELASTICITY(p) (((p)->sched_->mode_ & scheduler_mode_enable_elasticity) == 0)
#define UNSUPPORTED_OWN_PU(p) (env_self_ptr && ((p)->sched_->mode_ & scheduler_mode_enable_stealing) == 0 && env_cur_pool == (p))
#define UNSUPPORTED_SELF(p) (env_self_ptr && env_cur_pool == (p))
#define ERROR_VISIBLE(ec) ((ec) == &vx_throws ? vx_exc : (!vx_exc && (ec)->value != pika_error_success))
#endif
