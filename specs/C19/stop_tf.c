/* C19 (worker life cycle) -- the try / catch structure of scheduled_thread_pool::thread_func around the scheduling loop
 * (fragment `try { try { manage_active_thread_count count(...); ... scheduling_loop(...); PIKA_ASSERT(...); } catch (pika::exception)
 * ... catch (std::system_error) ... catch (std::exception) { repackage } } catch (...) { ... }`).
 * T contract: whatever ends the scheduling loop, (1) no exception leaves the worker's thread function (an exception that
 * escapes the function of a std::thread is std::terminate: every task of the pool would be lost), (2) an abnormal end is
 * reported exactly once through report_error(global_thread_num, ...) -- which tells every worker to terminate
 * (more.report_error: x -> terminating) --, a normal end is not reported, (3) the active-thread count taken for the loop is
 * given back exactly once.
 *
 * Exceptions are lowered to a pending-exception ghost (as in specs/C13): a may-throw call is followed by
 * `if (vx_exc) VX_PROPAGATE;`, try / catch by the local rule TryCatchNest (stop_spec.py), RAII by GuardX (destructor also on
 * the exceptional edge).  Only the scheduling loop may throw here; report_error is assumed not to (META assumptions).
 */
#include "vx.h"

typedef int pika_error;
enum { pika_error_unhandled_exception = 17 };    /* errors/error.hpp (census fact `pika::error values`) */
struct scheduler { size_t n; };
struct pool { struct scheduler *sched_; };
static struct pool *vx_pool;

/* ---- exception ghost ---- */
enum { EXC_none = 0, EXC_pika_exception = 1, EXC_system_error = 2, EXC_std_exception = 3, EXC_foreign = 4 };
static int vx_exc;                      /* kind of the exception in flight */
static pika_error vx_err;               /* its error code (pika::exception only) */
static int vx_caught;                   /* kind of the exception being handled (innermost handler) */
static pika_error vx_caught_err;
/* class hierarchy: pika::exception : std::system_error : std::runtime_error : std::exception */
#define VX_CATCHES_pika_exception (vx_exc == EXC_pika_exception)
#define VX_CATCHES_std_system_error (vx_exc == EXC_pika_exception || vx_exc == EXC_system_error)
#define VX_CATCHES_std_exception (vx_exc == EXC_pika_exception || vx_exc == EXC_system_error || vx_exc == EXC_std_exception)
#define VX_CATCHES_all (vx_exc != EXC_none)
static void vx_catch(void) { vx_caught = vx_exc; vx_caught_err = vx_err; vx_exc = EXC_none; }
struct vx_exception_obj { int kind; pika_error err; };
static struct vx_exception_obj make_pika_exception(pika_error e) { struct vx_exception_obj o; o.kind = EXC_pika_exception; o.err = e; return o; }
static long g_throws;                   /* throw expressions executed by the fragment itself */
static void vx_throw_obj(struct vx_exception_obj o)
{
  VX_ASSERT(vx_exc == EXC_none, "throw while another exception is in flight");
  vx_exc = o.kind;
  vx_err = o.err;
  if (g_throws < 2) g_throws++;
}

/* ---- environment ---- */
static long g_active_dec;               /* ~manage_active_thread_count: --thread_count_ */
static long g_thread_count;
static void active_count_release(void) { g_thread_count--; if (g_active_dec < 2) g_active_dec++; }
/* scheduling_callbacks callbacks(deferred_call(&scheduler_base::idle_callback, sched_.get(), thread_num), ...) */
static struct scheduler *g_cb_sched;
static size_t g_cb_thread;
static int deferred_idle_callback(struct scheduler *s, size_t num_thread) { g_cb_sched = s; g_cb_thread = num_thread; return 1; }
static int make_callbacks(int outer) { return outer; }
/* scheduling_loop(thread_num, *sched_, counters, callbacks): ends normally or by any exception (a task's, a scheduler's) */
static long g_loop_calls;
static size_t g_loop_arg;
static int g_loop_threw;
static pika_error g_loop_err;
static void scheduling_loop_stub(struct pool *self, size_t num_thread, int callbacks)
{
  VX_ASSERT(vx_exc == EXC_none, "callee entered while an exception is in flight");
  VX_ASSERT(callbacks == 1 && g_cb_sched == self->sched_ && g_cb_thread == num_thread,
            "the loop's idle callback is scheduler_base::idle_callback of this pool's scheduler, bound to this worker's number");
  VX_ASSERT(g_active_dec == 0, "the worker is counted as active while its scheduling loop runs");
  if (g_loop_calls < 2) g_loop_calls++;
  g_loop_arg = num_thread;
  int k = nondet_int();
  g_loop_threw = EXC_none;
  if (k == EXC_pika_exception) { g_loop_threw = k; g_loop_err = nondet_int(); vx_exc = k; vx_err = g_loop_err; }
  else if (k == EXC_system_error || k == EXC_std_exception || k == EXC_foreign) { g_loop_threw = k; vx_exc = k; }
}
/* report_error(global_thread_num, std::current_exception()) (unit more.report_error); assumed not to throw */
static long g_report_calls;
static size_t g_report_arg;
static int g_report_kind;
static pika_error g_report_err;
static void report_error(struct pool *self, size_t global_thread_num)
{
  VX_ASSERT(vx_exc == EXC_none && vx_caught != EXC_none, "report_error(std::current_exception()) is called from a handler");
  if (g_report_calls < 2) g_report_calls++;
  g_report_arg = global_thread_num;
  g_report_kind = vx_caught;
  g_report_err = vx_caught_err;
}

#define TF_FRAME vx_exc, vx_err, vx_caught, vx_caught_err, g_throws, g_active_dec, g_thread_count, g_cb_sched, g_cb_thread, g_loop_calls, \
                 g_loop_arg, g_loop_threw, g_loop_err, g_report_calls, g_report_arg, g_report_kind, g_report_err

//@FUNC
void thread_func_run(struct pool *self, size_t thread_num, size_t global_thread_num)
__CPROVER_requires(self == vx_pool && self->sched_ != NULL && thread_num < self->sched_->n)
__CPROVER_requires(vx_exc == EXC_none && vx_caught == EXC_none && g_throws == 0 && g_active_dec == 0 && g_loop_calls == 0 && g_report_calls == 0 && \
                   g_loop_threw == EXC_none && g_thread_count >= 1 && g_thread_count <= 1000000)
/* the scheduling loop is run exactly once, for this worker */
__CPROVER_ensures(g_loop_calls == 1 && g_loop_arg == thread_num)
/* (1) no exception leaves the thread function */
__CPROVER_ensures(vx_exc == EXC_none)
/* (2) an abnormal end of the loop is reported exactly once, with this worker's GLOBAL number; a normal end is not reported */
__CPROVER_ensures(g_report_calls == (g_loop_threw != EXC_none ? 1 : 0))
__CPROVER_ensures(g_report_calls == 1 ==> g_report_arg == global_thread_num)
/* what is reported is what was caught: a pika::exception with its error code, a std::system_error, a foreign exception as
 * they are; a plain std::exception as it is or repackaged as pika::exception(unhandled_exception) */
__CPROVER_ensures(g_loop_threw == EXC_pika_exception ==> (g_report_kind == EXC_pika_exception && g_report_err == g_loop_err))
__CPROVER_ensures(g_loop_threw == EXC_system_error ==> g_report_kind == EXC_system_error)
__CPROVER_ensures(g_loop_threw == EXC_foreign ==> g_report_kind == EXC_foreign)
__CPROVER_ensures(g_loop_threw == EXC_std_exception ==> (g_report_kind == EXC_std_exception || \
                                                         (g_report_kind == EXC_pika_exception && g_report_err == pika_error_unhandled_exception)))
/* (3) the active-thread count is given back exactly once on every path */
__CPROVER_ensures(g_active_dec == 1 && g_thread_count == __CPROVER_old(g_thread_count) - 1)
__CPROVER_assigns(TF_FRAME)
{
//@LIFT body
}

void harness(void)
{
  struct pool p;
  struct scheduler s;
  s.n = nondet_size();
  p.sched_ = &s;
  vx_pool = &p;
  vx_exc = EXC_none; vx_err = 0; vx_caught = EXC_none; vx_caught_err = 0; g_throws = 0; g_active_dec = 0; g_loop_calls = 0; g_report_calls = 0;
  g_loop_threw = EXC_none; g_loop_err = 0; g_report_kind = EXC_none; g_report_err = 0; g_report_arg = 0; g_loop_arg = 0; g_cb_sched = NULL; g_cb_thread = 0;
  g_thread_count = nondet_long();
  size_t tnum = nondet_size();
  size_t gnum = nondet_size();
  thread_func_run(&p, tnum, gnum);
  if (g_loop_threw == EXC_none) VX_REACH("loop_ended_normally");
  if (g_loop_threw == EXC_pika_exception) VX_REACH("loop_threw_pika_exception");
  if (g_loop_threw == EXC_system_error) VX_REACH("loop_threw_system_error");
  if (g_loop_threw == EXC_std_exception) VX_REACH("loop_threw_std_exception");
  if (g_loop_threw == EXC_foreign) VX_REACH("loop_threw_foreign_exception");
}
