/* C19 (stop hand-shake) -- scheduled_thread_pool::stop_locked, seen from the worker that is told to stop:
 * "a worker told to stop observes it".  Same lifted text as more.stop_locked (more.c), different question: more.c fixes
 * the call trace and the step on the word; THIS unit follows one symbolic worker g_v through the hand-shake and asks
 * whether it can be left ASLEEP (blocked in scheduler_base::suspend on its private condition variable) with the stop
 * request standing on its word when it is joined.
 *
 * Ghost g_need_wake: set by OUR raise when it moved the victim's word to `stopping` from pre_sleep | sleeping (the worker
 * is, or is about to be, blocked on suspend_conds_[g_v]; nothing but a notification of that cv ends the block: see unit
 * stop.suspend_block); cleared by a notification of suspend_conds_[g_v] that happens after the raise.
 * Obligation (at the join of the victim): !g_need_wake.
 *
 * The callees are CONTRACT stubs (each is a unit of its own): resume_internal (state.resume_internal +
 * state.resume_pu_direct + state.sched_resume), set_all_states_at_least (state.set_all_states_at_least),
 * remove_processing_unit_internal (more.remove_pu_internal), do_some_work (stop.do_some_work).
 */
#include "c19.h"
#include "more_rel.h"
#include "stop_rel.h"

#define GUAR(o, n) GUAR_STOPREQ(o, n)
#ifdef EXPERIMENT_SUSPEND_IN_FLIGHT
/* experiment (not a registered unit): suspension requests may be issued / be in flight while stop_locked runs */
#define RELY(o, n) RELY_LIVE(o, n)
#else
#define RELY(o, n) RELY_QUIET(o, n)
#endif
static bool g_need_wake;
#define STEP_HOOK(o, n) do { if ((o) == S_PRE || (o) == S_SLEEP) g_need_wake = true; } while (0)
#include "more_state.h"

static void throws_if(struct error_code *ec, pika_error errcode)
//@LIFT throws_if

/* ---- std::vector<std::thread> threads_ during stop: nobody adds / removes workers concurrently with stop_locked (it is
 *      the only caller of remove_processing_unit_internal, run() the only caller of add_processing_unit_internal, both
 *      run under the thread manager's lock: census `stop_locked / remove / add call sites`), so joinable() of a slot
 *      changes only through OUR remove_processing_unit_internal ---- */
static bool g_v_has_thread;             /* threads_[g_v].joinable() */
static bool stable_joinable(struct pool *p, size_t i)
{
  VX_ASSERT(i < p->threads_size, "threads_[i]: index within the vector");
  if (i != g_v) return nondet_bool();
  return g_v_has_thread;
}
static bool g_cleared;
static void threads_clear(struct pool *p)
{
  /* ~std::thread of a joinable thread calls std::terminate */
  VX_ASSERT(!(g_v < p->threads_size && g_v_has_thread), "threads_ is cleared only after every worker thread has been joined");
  p->threads_size = 0;
  g_cleared = true;
}

/* ---- the caller's lock `Lock& l` (thread manager) ---- */
struct tmlock { bool owns; };
static struct tmlock vx_tm;
static void tm_unlock(struct tmlock *l) { VX_ASSERT(l->owns, "unlock_guard on a lock that is not owned"); l->owns = false; }
static void tm_relock(struct tmlock *l) { VX_ASSERT(!l->owns, "unlock_guard re-locks a lock that is owned"); l->owns = true; }

/* ---- callees ---- */
static long g_wait_calls, g_ri_calls, g_raise_calls, g_dsw_calls, g_dsw_after_raise, g_rm_calls_v, g_rm_calls_o;
static long g_v_notified;               /* notifications of suspend_conds_[g_v] by this call (saturating at 2) */
static long g_v_notified_after_raise;
static bool g_ri_threw, g_rm_threw;
static bool g_ri_saw_awake;             /* resume_internal(blocking) returned normally after it saw the victim not `sleeping` */
static void pool_wait(struct pool *self)
{
  VX_ASSERT(g_ri_calls == 0 && g_raise_calls == 0 && g_rm_calls_v == 0 && g_rm_calls_o == 0, "stop waits for the work to finish before anything else");
  if (g_wait_calls < 2) g_wait_calls++;
}
static void notified_victim(void)
{
  if (g_v_notified < 2) g_v_notified++;
  if (g_raise_calls >= 1)
  {
    if (g_v_notified_after_raise < 2) g_v_notified_after_raise++;
    g_need_wake = false;
  }
}
/* resume_internal(blocking, ec) -- CONTRACT stub.
 *   state.resume_internal: no word written; suspend_conds_[i] notified for every i < threads_.size(); if blocking,
 *     resume_processing_unit_direct(i, ec) exactly once for every worker seen joinable;
 *   state.resume_pu_direct: a worker that is not joinable (under its PU mutex) is refused: error through ec (ec == throws:
 *     exception); otherwise it returns after it has read the worker's word and found it not `sleeping` (it notifies before
 *     every such read). */
static void resume_internal(struct pool *self, bool blocking, struct error_code *ec)
{
  VX_ASSERT(!vx_exc, "no call while an exception is in flight");
  if (g_ri_calls < 2) g_ri_calls++;
  if (g_v < self->threads_size) notified_victim();
  if (blocking && g_v < self->threads_size && g_v_has_thread)
  {
    if (nondet_bool()) { g_ri_threw = true; vx_throws_if(ec, pika_error_bad_parameter); return; }   /* (some other worker was refused) */
    notified_victim();
    interfere(&g_v_state);
    /* the moment of resume_processing_unit_direct's last read of the victim's word: postcondition of state.resume_pu_direct */
    VX_ASSUME(g_v_state != S_SLEEP);
    vx_seen(g_v_state);
    g_ri_saw_awake = true;
  }
  else if (nondet_bool()) { g_ri_threw = true; vx_throws_if(ec, pika_error_bad_parameter); }
}
/* scheduler_base::set_all_states_at_least -- CONTRACT stub (state.set_all_states_at_least): every word below s is raised to
 * s, at most once, nothing else is written */
static void sched_set_all_states_at_least(struct scheduler *s, runtime_state_t st)
{
  VX_ASSERT(!vx_exc, "no call while an exception is in flight");
  VX_ASSERT(st == S_STOPPING || st == S_TERM, "set_all_states_at_least is used to raise to stopping / terminating only (precondition of its unit)");
  if (g_raise_calls < 2) g_raise_calls++;
  interfere(&g_v_state);
  vx_seen(g_v_state);
  if (g_v_state < st) { vx_step(g_v_state, st); g_v_state = st; }
}
/* scheduler_base::do_some_work -- stop.do_some_work: notifies the idle back-off cv `cond_` only, never suspend_conds_[i] */
static void sched_do_some_work(struct scheduler *s, size_t num_thread)
{
  if (g_dsw_calls < 2) g_dsw_calls++;
  if (g_raise_calls >= 1 && g_dsw_after_raise < 2) g_dsw_after_raise++;
}
/* scheduler_base::resume(i) (state.sched_resume), should stop_locked ever call it directly */
static void sched_resume(struct scheduler *s, size_t num_thread)
{
  if (num_thread == g_v || num_thread == (size_t)(-1)) notified_victim();
}
/* remove_processing_unit_internal(i) -- CONTRACT stub (more.remove_pu_internal): places / sees the stop request on the
 * worker's word, takes the thread out of the vector and JOINS it: returns only when the worker's thread_func has ended */
static void remove_processing_unit_internal(struct pool *self, size_t virt_core)
{
  VX_ASSERT(!vx_exc, "no call while an exception is in flight");
  VX_ASSERT(virt_core < self->threads_size, "a worker of this pool is removed");
  VX_ASSERT(!vx_tm.owns, "the thread manager's lock is released while a worker is joined");
  if (virt_core == g_v)
  {
    VX_ASSERT(g_v_has_thread, "only a worker that has a thread is joined");
    /* THE obligation of this unit */
    VX_ASSERT(!g_need_wake, "a worker whose word was raised to `stopping` while it was asleep (sleeping) or about to sleep (pre_sleep) "
                            "is notified on its suspend condition variable after the raise, before it is joined (else join() never returns)");
    g_v_has_thread = false;
    if (g_rm_calls_v < 2) g_rm_calls_v++;
  }
  else if (g_rm_calls_o < 2) g_rm_calls_o++;
  if (nondet_bool()) { g_rm_threw = true; vx_throws_if(&vx_throws, pika_error_bad_parameter); }
}

#define GHOST_ZERO (lin_count == 0 && g_reads == 0 && !g_interfered && g_yields == 0 && g_refusals == 0 && !vx_exc && \
                    g_v_notifies == 0 && g_o_notifies == 0 && g_waits == 0 && !g_join_seen && NO_LOCKS_HELD && \
                    g_stutters == 0 && !g_after_step && !g_exchanged && !g_cleared && !g_need_wake && !g_ri_saw_awake && \
                    g_wait_calls == 0 && g_ri_calls == 0 && g_raise_calls == 0 && g_dsw_calls == 0 && g_dsw_after_raise == 0 && \
                    g_rm_calls_v == 0 && g_rm_calls_o == 0 && g_v_notified == 0 && g_v_notified_after_raise == 0 && !g_ri_threw && !g_rm_threw)
#define W_FRAME g_v_state, g_o_state, lin_count, lin_old, lin_new, lin_first_old, lin_first_new, g_last_read, g_reads, g_interfered, \
                g_refusals, vx_exc, g_thrown_code, vx_ec_obj, g_cleared, g_need_wake, g_ri_saw_awake, g_wait_calls, g_ri_calls, \
                g_raise_calls, g_dsw_calls, g_dsw_after_raise, g_rm_calls_v, g_rm_calls_o, g_v_notified, g_v_notified_after_raise, \
                g_v_has_thread, vx_tm, g_after_step, g_ri_threw, g_rm_threw

//@FUNC
void stop_locked(struct pool *self, struct tmlock *l, bool blocking)
__CPROVER_requires(self == vx_pool && self->sched_ != NULL && g_v < self->sched_->n && self->threads_size <= self->sched_->n && GHOST_ZERO)
__CPROVER_requires(l == &vx_tm && l->owns)
/* a slot outside the vector has no thread */
__CPROVER_requires(g_v >= self->threads_size ==> !g_v_has_thread)
#ifdef EXPERIMENT_SUSPEND_IN_FLIGHT
__CPROVER_requires(VALID(g_v_state))
#else
/* A-STOP-QUIET (META assumptions): no suspension request is in flight when stop_locked is entered and none is issued
 * while it runs: the word is not `pre_sleep`, and the rely (RELY_QUIET) has no running -> pre_sleep step */
__CPROVER_requires(VALID(g_v_state) && g_v_state != S_PRE)
#endif
/* the only own step on a worker's word is a raise to `stopping` (x < stopping): a worker that is already terminating or
 * stopped is not moved back */
__CPROVER_ensures(lin_count <= 1 && (lin_count == 1 ==> GUAR_STOPREQ(lin_old, lin_new)))
/* a pool with workers that returns normally has told every worker to stop: the word was raised to, or seen at / above, `stopping` */
__CPROVER_ensures((__CPROVER_old(self->threads_size) != 0 && !vx_exc) ==> (g_raise_calls >= 1 && (lin_count == 1 ? lin_new == S_STOPPING : g_last_read >= S_STOPPING)))
/* ... and the idle back-off sleepers were signalled after that */
__CPROVER_ensures((__CPROVER_old(self->threads_size) != 0 && !vx_exc) ==> g_dsw_after_raise >= 1)
/* a worker that was asleep when the request hit its word has been notified by this call (non-blocking: possibly only BEFORE
 * the raise -- see META not_decided; blocking: after the raise, else the join obligation above has failed) */
__CPROVER_ensures((lin_count == 1 && lin_old == S_SLEEP && g_v < __CPROVER_old(self->threads_size)) ==> g_v_notified >= 1)
__CPROVER_ensures((blocking && !vx_exc && g_rm_calls_v == 1) ==> !g_need_wake)
/* blocking: every worker that has a thread is joined exactly once (through remove_processing_unit_internal, with the
 * caller's lock released), and only then the vector is cleared; non-blocking: nobody is joined, the vector stays */
__CPROVER_ensures((blocking && !vx_exc && __CPROVER_old(self->threads_size) != 0) ==> (g_rm_calls_v == (__CPROVER_old(g_v_has_thread) ? 1 : 0) && !g_v_has_thread && g_cleared && self->threads_size == 0))
__CPROVER_ensures(g_rm_calls_v <= 1)
__CPROVER_ensures(!blocking ==> (g_rm_calls_v == 0 && g_rm_calls_o == 0 && !g_cleared && self->threads_size == __CPROVER_old(self->threads_size)))
/* blocking: the pool is drained first (wait() exactly once, before anything else: pool_wait) */
__CPROVER_ensures(__CPROVER_old(self->threads_size) != 0 ==> g_wait_calls == (blocking ? 1 : 0))
/* a pool without workers: nothing happens */
__CPROVER_ensures(__CPROVER_old(self->threads_size) == 0 ==> (g_wait_calls == 0 && g_ri_calls == 0 && g_raise_calls == 0 && lin_count == 0 && g_rm_calls_v == 0 && g_rm_calls_o == 0 && !g_cleared))
/* the caller's lock is owned again at return, also when a callee threw */
__CPROVER_ensures(l->owns)
__CPROVER_assigns(W_FRAME, self->threads_size)
//@LIFT body

void harness(void)
{
  struct pool p;
  struct scheduler s;
  s.n = nondet_size();
  s.mode_ = nondet_u32();
  p.sched_ = &s;
  p.threads_size = nondet_size();
  vx_pool = &p;
  g_v = nondet_size();
  g_v_state = nondet_i8();
  g_v_has_thread = nondet_bool();
  vx_ec_obj.value = nondet_int();
  env_self_ptr = nondet_bool();
  env_cur_pool = nondet_bool() ? &p : &vx_other_pool;
  vx_tm.owns = true;
  /* every ghost is pinned (dfcc makes statics nondeterministic) */
  lin_count = 0; g_reads = 0; g_interfered = false; g_yields = 0; g_refusals = 0; vx_exc = false; g_v_notifies = 0; g_o_notifies = 0;
  g_waits = 0; g_join_seen = false; g_v_pu_mtx.held = 0; g_o_pu_mtx.held = 0; g_v_susp_mtx.held = 0; g_o_susp_mtx.held = 0;
  g_stutters = 0; g_after_step = false; g_exchanged = false; g_cleared = false; g_need_wake = false; g_ri_saw_awake = false;
  g_wait_calls = 0; g_ri_calls = 0; g_raise_calls = 0; g_dsw_calls = 0; g_dsw_after_raise = 0; g_rm_calls_v = 0; g_rm_calls_o = 0;
  g_v_notified = 0; g_v_notified_after_raise = 0; g_ri_threw = false; g_rm_threw = false;
  size_t size0 = p.threads_size;
  bool had_thread = g_v_has_thread;
  runtime_state_t state0 = g_v_state;
  bool blocking = nondet_bool();
  stop_locked(&p, &vx_tm, blocking);
  if (size0 == 0) VX_REACH("no_workers");
  if (!vx_exc && size0 != 0 && blocking && g_rm_calls_v == 1) VX_REACH("blocking_victim_joined");
  if (!vx_exc && size0 != 0 && blocking && g_v < size0 && !had_thread) VX_REACH("blocking_victim_without_thread_skipped");
  if (!vx_exc && size0 != 0 && !blocking) VX_REACH("non_blocking");
  if (!vx_exc && blocking && g_rm_calls_v == 1 && state0 == S_SLEEP && lin_count == 1 && lin_old == S_RUN) VX_REACH("suspended_worker_woken_then_told_to_stop_then_joined");
  if (!vx_exc && blocking && g_rm_calls_v == 1 && lin_count == 0) VX_REACH("joined_worker_already_stopping_or_beyond");
  if (!blocking && lin_count == 1 && lin_old == S_SLEEP && g_v_notified_after_raise == 0) VX_REACH("non_blocking_raise_on_sleeping_worker_notified_only_before_the_raise");
  if (lin_count == 1 && g_interfered) VX_REACH("raised_after_interference");
  if (vx_exc && g_ri_threw) VX_REACH("resume_threw");
  if (vx_exc && g_rm_threw) VX_REACH("remove_threw");
#ifdef EXPERIMENT_SUSPEND_IN_FLIGHT
  if (lin_count == 1 && lin_old == S_PRE) VX_REACH("raised_on_worker_about_to_sleep");
#endif
}
