/* C19 unit group 2 -- steps on the per-worker runtime_state word.  One template, one unit per U_<NAME>. */
#include "c19.h"

/* ---------------- per-unit guarantee / rely / order predicates ---------------- */
#if defined(U_SPU_INTERNAL)
/* suspend_processing_unit_internal: only running -> pre_sleep, only under the PU mutex, only for a joinable worker */
#define GUAR(o, n) GUAR_REQUEST(o, n)
#define RELY(o, n) RELY_CYCLE(o, n)
#define OTHER_VALID(n) IN_CYCLE(n)
#define STEP_HOOK(o, n) do { \
    VX_ASSERT(g_v_pu_mtx.held == 1, "the worker's word is moved to pre_sleep only under its PU mutex"); \
    VX_ASSERT(g_v_joinable, "the worker's word is moved to pre_sleep only for a joinable (existing) worker"); \
    VX_ASSERT(g_refusals == 0 && !vx_exc, "no suspension step after the request has been refused"); } while (0)
#elif defined(U_RPU_DIRECT)
/* resume_processing_unit_direct never writes a state word */
#define GUAR(o, n) (0)
#define RELY(o, n) RELY_CYCLE(o, n)
#define STEP_HOOK(o, n) do { } while (0)
/* "notifies until not sleeping": every look at the worker's word comes after a fresh notification (a notification sent
 * before the worker blocked is lost, so checking without re-notifying could wait for ever) */
#define READ_HOOK() do { VX_ASSERT(g_resumes_since_read == 1, "the worker's word is checked only after the worker has been notified again"); \
    g_resumes_since_read = 0; } while (0)
#elif defined(U_SCHED_SUSPEND)
/* scheduler_base::suspend (run by the worker itself): pre_sleep -> sleeping, then sleeping -> running and nothing else.
 * Rely = what everybody except the worker may do: request a suspension of a running worker; tell a sleeping worker to
 * stop / terminate.  (A stop / terminate request that arrives between the worker's pre_sleep check and its publishing
 * `sleeping` is NOT in the rely: see META assumptions.) */
#define GUAR(o, n) GUAR_WORKER(o, n)
#define RELY(o, n) RELY_WORKER(o, n)
#define STEP_HOOK(o, n) do { } while (0)
/* when the addressed worker is not the victim its word is abstract; the rely then says what it may hold after our store */
#define OTHER_VALID(n) ((n) == S_SLEEP || (n) == S_STOPPING || (n) == S_TERM)
#define CV_WAIT_HOOK(c) do { if ((c) == &g_v_cond) VX_ASSERT(lin_count == 1 && lin_new == S_SLEEP, \
    "the worker blocks only after it has published `sleeping`"); } while (0)
#elif defined(U_SCHED_RESUME)
#define GUAR(o, n) (0)
#define RELY(o, n) (VALID(n))
#define STEP_HOOK(o, n) do { } while (0)
#elif defined(U_SET_ALL)
/* set_all_states: every store is an edge of the graph.  Only call site: thread_manager::run, set_all_states(running)
 * before the workers are started; a worker that is already up sets its own word to running (thread_func). */
#define GUAR(o, n) GRAPH(o, n)
#define RELY(o, n) RELY_STARTUP(o, n)
#define STEP_HOOK(o, n) do { } while (0)
#elif defined(U_SET_AT_LEAST)
/* set_all_states_at_least(stopping | terminating): raises a word, never lowers it */
#define GUAR(o, n) GUAR_RAISE(o, n)
#define RELY(o, n) RELY_CYCLE(o, n)
#define STEP_HOOK(o, n) do { } while (0)
#elif defined(U_SUSPEND_INTERNAL)
/* suspend_internal: pre-announces the suspension to every running worker (running -> pre_sleep), then suspends each */
#define GUAR(o, n) GUAR_REQUEST(o, n)
#define RELY(o, n) RELY_CYCLE(o, n)
#define STEP_HOOK(o, n) do { VX_ASSERT(g_refusals == 0 && !vx_exc, "no suspension step after a refusal"); } while (0)
#elif defined(U_RESUME_INTERNAL)
#define GUAR(o, n) (0)
#define RELY(o, n) RELY_CYCLE(o, n)
#define STEP_HOOK(o, n) do { } while (0)
#elif defined(U_SELECT_PU)
#define GUAR(o, n) (0)
#define RELY(o, n) (VALID(n))
#define STEP_HOOK(o, n) do { } while (0)
#endif

static long g_resumes_since_read;       /* 1 iff Scheduler::resume(g_v) has been called since the victim word was last read */
#include "state.h"

static void throws_if(struct error_code *ec, pika_error errcode)
//@LIFT throws_if
/* scheduler_base::get_state / get_pu_mutex -- LIFTED (their PIKA_ASSERT is an obligation at every call) */
static runtime_state_t *get_state(struct scheduler *self, size_t num_thread)
//@LIFT get_state
static struct vx_mtx *get_pu_mutex(struct scheduler *self, size_t num_thread)
//@LIFT get_pu_mutex
static bool has_scheduler_mode(struct scheduler *self, scheduler_mode_t mode)
//@LIFT has_scheduler_mode

/* `a % n` on std::size_t (environment stub for the arithmetic operator; avoids a symbolic 64-bit division):
 * exact when a < n, otherwise some value below n.  Division by zero is an obligation. */
static size_t vx_mod(size_t a, size_t n)
{
  VX_ASSERT(n != 0, "modulo by zero: (num_thread + offset) % states_size with no workers");
  if (a < n) return a;
  size_t r = nondet_size();
  VX_ASSUME(r < n); /* a % n < n */
  return r;
}

/* ---------------- T stubs of scheduler / pool callees ---------------- */
static long g_resume_calls_v;           /* Scheduler::resume(g_v) calls (saturating at 2) */
static long g_resume_calls_o;           /* Scheduler::resume(i != g_v) calls (saturating at 2) */
static void sched_resume(struct scheduler *s, size_t num_thread)
{
  VX_ASSERT(g_refusals == 0 && !vx_exc, "no resume step after the request has been refused");
  VX_ASSERT(num_thread < s->n, "Scheduler::resume: PIKA_ASSERT(num_thread < suspend_conds_.size())");
  if (num_thread == g_v) { if (g_resume_calls_v < 2) g_resume_calls_v++; g_resumes_since_read = 1; }
  else if (g_resume_calls_o < 2) g_resume_calls_o++;
}

static int64_t sched_get_thread_count(struct scheduler *s) { return nondet_i64(); }

/* callees of suspend_internal / resume_internal: T stubs (their bodies are the units state.suspend_pu_internal and
 * state.resume_pu_direct); they may refuse through ec or throw */
static long g_callee_calls_v;           /* calls addressed to worker g_v (saturating at 2) */
static long g_callee_calls_o;           /* calls addressed to other workers (saturating at 2) */
static struct error_code *g_callee_ec;
static void vx_callee(struct pool *self, size_t virt_core, struct error_code *ec)
{
  VX_ASSERT(!vx_exc, "no call while an exception is in flight");
  VX_ASSERT(virt_core < self->threads_size, "the callee is asked about a worker of this pool");
  if (virt_core == g_v) { if (g_callee_calls_v < 2) g_callee_calls_v++; g_callee_ec = ec; }
  else if (g_callee_calls_o < 2) g_callee_calls_o++;
  if (nondet_bool()) vx_throws_if(ec, pika_error_bad_parameter);   /* "already stopped": reported through ec or thrown */
}
#ifdef U_SUSPEND_INTERNAL
static void suspend_processing_unit_internal(struct pool *self, size_t virt_core, struct error_code *ec) { vx_callee(self, virt_core, ec); }
#endif
#ifdef U_RESUME_INTERNAL
static void resume_processing_unit_direct(struct pool *self, size_t virt_core, struct error_code *ec) { vx_callee(self, virt_core, ec); }
#endif

/* dfcc makes every static nondeterministic at the start of the harness: the whole ghost state is pinned here */
#define GHOST_ZERO (lin_count == 0 && g_reads == 0 && !g_interfered && g_yields == 0 && g_refusals == 0 && !vx_exc && \
                    g_resume_calls_v == 0 && g_resume_calls_o == 0 && g_resumes_since_read == 0 && g_callee_calls_v == 0 && \
                    g_callee_calls_o == 0 && g_v_notifies == 0 && g_o_notifies == 0 && g_waits == 0 && !g_join_seen && NO_LOCKS_HELD)
#define S_PRE_COMMON(self) ((self) == vx_pool && (self)->sched_ != NULL && g_v < (self)->sched_->n && \
                            (self)->threads_size <= (self)->sched_->n && VALID(g_v_state) && GHOST_ZERO)
#define S_FRAME g_v_state, g_o_state, g_v_joinable, lin_count, lin_old, lin_new, lin_first_old, lin_first_new, g_last_read, \
                g_reads, g_interfered, g_v_pu_mtx, g_o_pu_mtx, g_v_susp_mtx, g_o_susp_mtx, g_yields, g_refusals, vx_exc, \
                g_thrown_code, vx_ec_obj, g_resume_calls_v, g_resume_calls_o, g_resumes_since_read, g_join_seen, \
                g_callee_calls_v, g_callee_calls_o, g_callee_ec

#ifdef U_SPU_INTERNAL
//@FUNC
void suspend_processing_unit_internal(struct pool *self, size_t virt_core, struct error_code *ec)
__CPROVER_requires(S_PRE_COMMON(self) && (ec == &vx_throws || ec == &vx_ec_obj))
/* caller's duty (PIKA_ASSERT of get_pu_mutex): the processing unit exists in the scheduler */
__CPROVER_requires(virt_core < self->sched_->n)
/* caller's duty (the PIKA_ASSERT on `expected`): the addressed worker is up and is not being started / shut down
 * concurrently: its word stays on the hand-shake cycle running / pre_sleep / sleeping (also the rely of this unit) */
__CPROVER_requires(IN_CYCLE(g_v_state))
/* at most one step, on the addressed worker only, and it is running -> pre_sleep */
__CPROVER_ensures(lin_count <= 1 && (lin_count == 1 ==> (virt_core == g_v && lin_old == S_RUN && lin_new == S_PRE)))
/* a worker that does not exist (any more) is refused with an error and no step is taken */
__CPROVER_ensures(g_refusals >= 1 ==> (lin_count == 0 && ERROR_VISIBLE(ec)))
/* the call returns normally only after it has seen the worker leave pre_sleep (hand-shake finished) */
__CPROVER_ensures((g_refusals == 0 && virt_core == g_v) ==> (g_reads >= 1 && g_last_read != S_PRE))
/* no mutex is held at return */
__CPROVER_ensures(g_v_pu_mtx.held == 0 && g_o_pu_mtx.held == 0)
__CPROVER_assigns(S_FRAME)
//@LIFT body
#endif

#ifdef U_RPU_DIRECT
//@FUNC
void resume_processing_unit_direct(struct pool *self, size_t virt_core, struct error_code *ec)
__CPROVER_requires(S_PRE_COMMON(self) && (ec == &vx_throws || ec == &vx_ec_obj))
__CPROVER_requires(virt_core < self->sched_->n)
/* never writes a state word */
__CPROVER_ensures(lin_count == 0)
/* a worker that does not exist is refused with an error and nobody is notified */
__CPROVER_ensures(g_refusals >= 1 ==> (g_resume_calls_v == 0 && g_resume_calls_o == 0 && ERROR_VISIBLE(ec)))
/* otherwise only the addressed worker is notified, at least once, and the call returns only after it has seen the
 * worker's word differ from sleeping, having notified it before that read */
__CPROVER_ensures((g_refusals == 0 && virt_core == g_v) ==> (g_resume_calls_v >= 1 && g_resume_calls_o == 0 && g_reads >= 1 && g_last_read != S_SLEEP))
__CPROVER_ensures((g_refusals == 0 && virt_core != g_v) ==> g_resume_calls_v == 0)
__CPROVER_ensures(g_v_pu_mtx.held == 0 && g_o_pu_mtx.held == 0)
__CPROVER_assigns(S_FRAME)
//@LIFT body
#endif

#ifdef U_SUSPEND_INTERNAL
//@FUNC
void suspend_internal(struct pool *self, struct error_code *ec)
__CPROVER_requires(S_PRE_COMMON(self) && (ec == &vx_throws || ec == &vx_ec_obj))
/* the pool is up, not being started / shut down concurrently (as for suspend_processing_unit_internal) */
__CPROVER_requires(IN_CYCLE(g_v_state))
/* own steps on a worker's word: at most one, running -> pre_sleep, and only for workers of this pool */
__CPROVER_ensures(lin_count <= 1 && (lin_count == 1 ==> (lin_old == S_RUN && lin_new == S_PRE && g_v < self->threads_size)))
/* unless an exception ends the call, every worker of the pool is suspended exactly once (with the caller's ec), no other */
__CPROVER_ensures(!vx_exc ==> (g_callee_calls_v == (g_v < self->threads_size ? 1 : 0)))
__CPROVER_ensures(g_callee_calls_v >= 1 ==> g_callee_ec == ec)
__CPROVER_assigns(S_FRAME)
//@LIFT body
#endif

#ifdef U_RESUME_INTERNAL
//@FUNC
void resume_internal(struct pool *self, bool blocking, struct error_code *ec)
__CPROVER_requires(S_PRE_COMMON(self) && (ec == &vx_throws || ec == &vx_ec_obj))
/* never writes a state word */
__CPROVER_ensures(lin_count == 0)
/* every worker of the pool is notified, no other */
__CPROVER_ensures(g_v < self->threads_size ? g_resume_calls_v >= 1 : g_resume_calls_v == 0)
/* blocking: additionally waits (resume_processing_unit_direct) for every worker it saw joinable, exactly once */
__CPROVER_ensures(!vx_exc ==> (g_callee_calls_v == ((blocking && g_v < self->threads_size && g_join_seen) ? 1 : 0)))
__CPROVER_ensures(!blocking ==> (g_callee_calls_v == 0 && g_callee_calls_o == 0))
__CPROVER_ensures(g_callee_calls_v >= 1 ==> g_callee_ec == ec)
__CPROVER_assigns(S_FRAME)
//@LIFT body
#endif

/* ================= scheduler_base members ================= */
#define S_PRE_SCHED(self) ((self) == vx_pool->sched_ && g_v < (self)->n && VALID(g_v_state) && GHOST_ZERO)
#define SCHED_FRAME g_v_state, g_o_state, g_v_joinable, lin_count, lin_old, lin_new, lin_first_old, lin_first_new, g_last_read, \
                    g_reads, g_interfered, g_v_pu_mtx, g_o_pu_mtx, g_v_susp_mtx, g_o_susp_mtx, g_v_notifies, g_o_notifies, g_waits

#ifdef U_SCHED_SUSPEND
//@FUNC
void sched_suspend(struct scheduler *self, size_t num_thread)
__CPROVER_requires(S_PRE_SCHED(self) && num_thread < self->n)
/* the only caller (scheduling loop) has just seen its own word in pre_sleep */
__CPROVER_requires(num_thread == g_v ==> g_v_state == S_PRE)
/* no other worker's word is stepped */
__CPROVER_ensures(num_thread != g_v ==> lin_count == 0)
/* the worker publishes `sleeping` (from pre_sleep), then blocks; afterwards it sets `running` only from `sleeping`:
 * a stop / terminate request that arrived meanwhile is left untouched */
__CPROVER_ensures(num_thread == g_v ==> (lin_count >= 1 && lin_count <= 2 && lin_first_old == S_PRE && lin_first_new == S_SLEEP && g_waits >= 1))
__CPROVER_ensures((num_thread == g_v && lin_count == 2) ==> (lin_old == S_SLEEP && lin_new == S_RUN))
__CPROVER_ensures((num_thread == g_v && lin_count == 1) ==> (g_last_read == S_STOPPING || g_last_read == S_TERM))
__CPROVER_ensures(g_v_susp_mtx.held == 0 && g_o_susp_mtx.held == 0)
__CPROVER_assigns(SCHED_FRAME)
//@LIFT body
#endif

#ifdef U_SCHED_RESUME
//@FUNC
void sched_resume_fn(struct scheduler *self, size_t num_thread)
__CPROVER_requires(S_PRE_SCHED(self) && (num_thread < self->n || num_thread == (size_t)(-1)))
/* resume never touches a state word: it can only wake a worker that is blocked in suspend(), i.e. one that has
 * published `sleeping` (sched_suspend: "blocks only after it has published sleeping") */
__CPROVER_ensures(lin_count == 0 && g_reads == 0)
/* the addressed worker's condition variable is notified (all of them for -1), nobody else's */
__CPROVER_ensures((num_thread == g_v || num_thread == (size_t)(-1)) ? g_v_notifies >= 1 : g_v_notifies == 0)
__CPROVER_ensures((num_thread != g_v && num_thread != (size_t)(-1)) ==> g_o_notifies >= 1)
__CPROVER_assigns(SCHED_FRAME)
//@LIFT body
#endif

#ifdef U_SET_ALL
//@FUNC
void set_all_states(struct scheduler *self, runtime_state_t s)
__CPROVER_requires(S_PRE_SCHED(self))
/* call site: start-up, set_all_states(running) on words that are initialized (or already running) */
__CPROVER_requires(s == S_RUN && (g_v_state == S_INIT || g_v_state == S_RUN))
/* every worker's word is written with s, by an edge of the graph (asserted at the store) */
__CPROVER_ensures(lin_count >= 1 && lin_new == s)
__CPROVER_assigns(SCHED_FRAME)
//@LIFT body
#endif

#ifdef U_SET_AT_LEAST
//@FUNC
void set_all_states_at_least(struct scheduler *self, runtime_state_t s)
__CPROVER_requires(S_PRE_SCHED(self))
/* call sites: stop_locked (stopping), report_error / abort (terminating) */
__CPROVER_requires(s == S_STOPPING || s == S_TERM)
/* a word is only ever raised, to s, at most once; if it is left alone it was seen to be at least s */
__CPROVER_ensures(lin_count <= 1 && g_reads >= 1)
__CPROVER_ensures(lin_count == 1 ==> (lin_new == s && lin_old < s))
__CPROVER_ensures(lin_count == 0 ==> g_last_read >= s)
__CPROVER_assigns(SCHED_FRAME)
//@LIFT body
#endif

#ifdef U_SELECT_PU
#define PU_MTX_OF(i) ((i) == g_v ? MTX_PU_V : MTX_PU_O)
#define LOCKS_MATCH(l) (g_v_pu_mtx.held == (((l)->owns && (l)->m == MTX_PU_V) ? 1 : 0) && \
                        g_o_pu_mtx.held == (((l)->owns && (l)->m == MTX_PU_O) ? 1 : 0))
static struct ulock vx_lk;              /* the caller's (default constructed) unique_lock */
/* ---- the tolerance ("Increase allowed state if no threads are available for scheduling", added after seeded change C02-7 was missed).
 * A round of the non-fallback search visits the workers in ring order; a visited worker is either selected, or its word is read
 * and compared with the tolerance (and counted when it is within it -- also when its PU mutex could not be try-locked: somebody
 * else is scheduling to it right now, it is NOT unavailable).  The tolerance is raised only after a round in which no visited
 * worker was left uncompared and none was found within the tolerance: otherwise a task is queued on a sleeping worker while an
 * awake one exists. */
static bool g_in_round;         /* inside a round of the non-fallback search */
static bool g_v_pending;        /* the victim was visited in this round and has not been selected / had its word read since */
static bool g_v_round_allowed;  /* the victim's word was compared with the tolerance (not under its PU mutex) and found within it, in this round */
static void vx_round_begin(void) { g_in_round = true; g_v_pending = false; g_v_round_allowed = false; }
static struct vx_mtx *vx_visit(struct scheduler *s, size_t i)
{
  if (g_in_round)
  {
    VX_ASSERT(!g_v_pending, "every worker visited in a round is selected or has its state word read before the search moves on (a worker whose PU mutex is busy is still a candidate for the tolerance count)");
    g_v_pending = (i == g_v);
  }
  return vx_pu_mtx(s, i);
}
static runtime_state_t *vx_state_sel(struct scheduler *s, size_t i)
{
  if (g_in_round && i == g_v) g_v_pending = false;
  return vx_state(s, i);
}
static bool vx_within_tolerance(struct scheduler *s, size_t i, runtime_state_t tol, struct ulock *l)
{
  bool within = atomic_load(vx_state_sel(s, i)) <= tol;
  if (g_in_round && i == g_v && !l->owns && within) g_v_round_allowed = true;
  return within;
}
static void vx_escalate(void)
{
  VX_ASSERT(!g_v_pending, "the tolerance is raised only after a round that left no visited worker uncompared");
  VX_ASSERT(!g_v_round_allowed, "the tolerance is raised only if no worker was found within it in this round (a worker that merely could not be try-locked counts as available)");
}
#define SEL_GHOSTS g_in_round, g_v_pending, g_v_round_allowed
//@FUNC
size_t select_active_pu(struct scheduler *self, struct ulock *l, size_t num_thread, bool allow_fallback)
__CPROVER_requires(S_PRE_SCHED(self) && l == &vx_lk && !l->owns && l->m == MTX_NONE)
/* callers reduce the hint modulo the number of queues first */
__CPROVER_requires(num_thread < self->n)
/* the selected worker exists */
__CPROVER_ensures(__CPROVER_return_value < self->n)
/* without elasticity nothing is redirected and no lock is taken */
__CPROVER_ensures(UNSUPPORTED_NO_ELASTICITY(vx_pool) ==> (__CPROVER_return_value == num_thread && !l->owns))
/* with fallback: the original worker, or a worker whose PU mutex is now held by l and whose word was seen <= suspended
 * while holding it (a worker that is suspending or asleep is never selected as a replacement) */
__CPROVER_ensures(allow_fallback ==> (__CPROVER_return_value == num_thread || \
    (l->owns && l->m == PU_MTX_OF(__CPROVER_return_value) && (__CPROVER_return_value == g_v ==> (g_reads >= 1 && g_last_read <= runtime_state_suspended)))))
/* without fallback: a lock handed back to the caller is the PU mutex of the selected worker, and the selected worker's
 * word was seen (under that mutex) at or below the current tolerance, which never exceeds `stopping` */
__CPROVER_ensures((!allow_fallback && l->owns) ==> (l->m == PU_MTX_OF(__CPROVER_return_value) && \
    (__CPROVER_return_value == g_v ==> (g_reads >= 1 && g_last_read <= runtime_state_stopping))))
/* never writes a state word; holds exactly the mutex l owns */
__CPROVER_ensures(lin_count == 0 && LOCKS_MATCH(l))
__CPROVER_assigns(SCHED_FRAME, g_yields, vx_lk, SEL_GHOSTS)
//@LIFT body
#endif

void harness(void)
{
  struct pool p;
  struct scheduler s;
  s.n = nondet_size();
  s.mode_ = nondet_u32();
  p.sched_ = &s;
  p.threads_size = nondet_size();
  vx_pool = &p;
  g_v = nondet_size();
  g_v_state = nondet_i8();
  g_v_joinable = nondet_bool();
  vx_ec_obj.value = nondet_int();
  struct error_code *ec = nondet_bool() ? &vx_throws : &vx_ec_obj;
  size_t core = nondet_size();
#ifdef U_SUSPEND_INTERNAL
  suspend_internal(&p, ec);
  if (!vx_exc && g_callee_calls_v == 1 && lin_count == 1) VX_REACH("announced_and_suspended");
  if (!vx_exc && g_callee_calls_v == 1 && lin_count == 0) VX_REACH("suspended_not_running");
  if (!vx_exc && g_callee_calls_v == 0) VX_REACH("not_a_worker_of_this_pool");
  if (vx_exc) VX_REACH("callee_threw");
  if (!vx_exc && g_refusals >= 1) VX_REACH("callee_refused_through_ec");
  if (g_yields >= 1) VX_REACH("waited_for_tasks");
#endif
#ifdef U_RESUME_INTERNAL
  bool blocking = nondet_bool();
  g_join_seen = false;
  resume_internal(&p, blocking, ec);
  if (!vx_exc && g_callee_calls_v == 1) VX_REACH("waited_for_victim");
  if (!vx_exc && blocking && g_v < p.threads_size && g_callee_calls_v == 0) VX_REACH("victim_not_joinable");
  if (!blocking) VX_REACH("non_blocking");
  if (vx_exc) VX_REACH("callee_threw");
#endif
#ifdef U_SELECT_PU
  bool fb = nondet_bool();
  g_in_round = false; g_v_pending = false; g_v_round_allowed = false;
  vx_lk.m = MTX_NONE;
  vx_lk.owns = false;
  size_t r = select_active_pu(&s, &vx_lk, core, fb);
  if (UNSUPPORTED_NO_ELASTICITY(&p)) VX_REACH("no_elasticity");
  if (!UNSUPPORTED_NO_ELASTICITY(&p) && fb && r != core && r == g_v) VX_REACH("fallback_to_victim");
  if (!UNSUPPORTED_NO_ELASTICITY(&p) && fb && r == core && !vx_lk.owns) VX_REACH("fallback_exhausted");
  if (!UNSUPPORTED_NO_ELASTICITY(&p) && !fb && vx_lk.owns && r == g_v && r != core) VX_REACH("redirected_to_victim");
  if (!UNSUPPORTED_NO_ELASTICITY(&p) && !fb && vx_lk.owns && r == core) VX_REACH("kept_original");
  if (!UNSUPPORTED_NO_ELASTICITY(&p) && !fb && !vx_lk.owns) VX_REACH("gave_up_all_stopped");
  if (g_yields >= 1) VX_REACH("yielded");
#endif
#ifdef U_SCHED_SUSPEND
  sched_suspend(&s, core);
  if (core == g_v && lin_count == 2) VX_REACH("woke_up_running");
  if (core == g_v && lin_count == 1 && g_last_read == S_STOPPING) VX_REACH("woke_up_stopping");
  if (core == g_v && lin_count == 1 && g_last_read == S_TERM) VX_REACH("woke_up_terminating");
  if (core != g_v) VX_REACH("other_worker");
#endif
#ifdef U_SCHED_RESUME
  sched_resume_fn(&s, core);
  if (core == g_v) VX_REACH("notified_victim");
  if (core == (size_t)(-1)) VX_REACH("notified_all");
  if (core != g_v && core != (size_t)(-1)) VX_REACH("notified_other");
#endif
#ifdef U_SET_ALL
  set_all_states(&s, nondet_i8());
  VX_REACH("all_set");
  if (g_interfered) VX_REACH("worker_started_meanwhile");
#endif
#ifdef U_SET_AT_LEAST
  set_all_states_at_least(&s, nondet_i8());
  if (lin_count == 1 && lin_new == S_STOPPING) VX_REACH("raised_to_stopping");
  if (lin_count == 1 && lin_new == S_TERM && lin_old == S_STOPPING) VX_REACH("raised_stopping_to_terminating");
  if (lin_count == 0) VX_REACH("left_alone");
  if (lin_count == 1 && g_interfered) VX_REACH("raised_after_interference");
#endif
#ifdef U_SPU_INTERNAL
  suspend_processing_unit_internal(&p, core, ec);
  if (lin_count == 1) VX_REACH("moved_running_to_pre_sleep");
  if (g_refusals == 0 && core == g_v && lin_count == 0) VX_REACH("already_suspending_or_asleep");
  if (g_refusals >= 1 && ec == &vx_ec_obj) VX_REACH("refused_through_error_code");
  if (g_refusals >= 1 && ec == &vx_throws) VX_REACH("refused_by_exception");
  if (g_refusals == 0 && core != g_v) VX_REACH("other_worker");
  if (g_yields >= 1) VX_REACH("waited");
#endif
#ifdef U_RPU_DIRECT
  resume_processing_unit_direct(&p, core, ec);
  if (g_refusals == 0 && core == g_v) VX_REACH("resumed_victim");
  if (g_refusals == 0 && core == g_v && g_resume_calls_v >= 2) VX_REACH("notified_repeatedly");
  if (g_refusals >= 1 && ec == &vx_ec_obj) VX_REACH("refused_through_error_code");
  if (g_refusals >= 1 && ec == &vx_throws) VX_REACH("refused_by_exception");
  if (g_refusals == 0 && core != g_v) VX_REACH("other_worker");
#endif
}
