/* C19 unit group 2 -- the per-worker runtime_state word (S contracts), PU mutex (M) and call traces (T).
 * Included by state.c AFTER the unit has defined
 *   GUAR(o, n)   the steps the function under contract may perform on a state word (its guarantee)
 *   RELY(o, n)   what the environment may do to the word between two of our accesses (reflexive, transitive)
 *   STEP_HOOK(o, n)   unit specific order predicates asserted at the moment of our own step (lock held, joinable, ...)
 *
 * Victim abstraction (see c19.h): worker g_v is precise, all other workers are abstract.
 */
#ifndef C19_STATE_H
#define C19_STATE_H
#include "c19.h"

#define S_INIT runtime_state_initialized
#define S_RUN runtime_state_running
#define S_PRE runtime_state_pre_sleep
#define S_SLEEP runtime_state_sleeping
#define S_STOPPING runtime_state_stopping
#define S_TERM runtime_state_terminating
#define S_STOPPED runtime_state_stopped
/* values a per-worker word ever holds */
#define VALID(s) ((s) == S_INIT || (s) == S_RUN || (s) == S_PRE || (s) == S_SLEEP || (s) == S_STOPPING || (s) == S_TERM || (s) == S_STOPPED)
#define IN_CYCLE(s) ((s) == S_RUN || (s) == S_PRE || (s) == S_SLEEP)
/* the allowed transition graph of one worker's word (DESIGN C19):
 *   initialized -> running -> pre_sleep -> sleeping -> running,  x -> stopping (x < stopping),  x -> terminating
 *   (x < terminating),  stopping|terminating -> stopped,  stopped -> initialized */
#define GRAPH(o, n) (((n) == S_RUN && ((o) == S_INIT || (o) == S_RUN || (o) == S_SLEEP)) || \
                     ((n) == S_PRE && (o) == S_RUN) || \
                     ((n) == S_SLEEP && (o) == S_PRE) || \
                     ((n) == S_STOPPING && (o) < S_STOPPING) || \
                     ((n) == S_TERM && (o) < S_TERM) || \
                     ((n) == S_STOPPED && ((o) == S_STOPPING || (o) == S_TERM)) || \
                     ((n) == S_INIT && (o) == S_STOPPED))
/* ---- guarantees (the steps a class of functions makes) and relies (the steps it tolerates from everybody else) ----
 * requesters = suspend_processing_unit_internal, suspend_internal (running -> pre_sleep; resume* never write)
 * worker     = scheduler_base::suspend run by the worker itself (pre_sleep -> sleeping, sleeping -> running)
 * raisers    = set_all_states_at_least(stopping | terminating)
 * lemma.c proves: every guarantee is a set of GRAPH edges; GUAR_WORKER and GUAR_REQUEST are inside RELY_CYCLE;
 * GUAR_REQUEST and the raisers' steps on a sleeping / stopping worker are inside RELY_WORKER; the relies are reflexive
 * and transitive (so "havoc once before each access" covers any number of environment steps). */
#define GUAR_REQUEST(o, n) ((o) == S_RUN && (n) == S_PRE)
#define GUAR_WORKER(o, n) (((o) == S_PRE && (n) == S_SLEEP) || ((o) == S_SLEEP && (n) == S_RUN))
#define GUAR_RAISE(o, n) (GRAPH(o, n) && (o) < (n) && ((n) == S_STOPPING || (n) == S_TERM))
/* requester-side rely: the worker and other requesters move the word around the hand-shake cycle */
#define RELY_CYCLE(o, n) ((n) == (o) || (IN_CYCLE(o) && IN_CYCLE(n)))
/* worker-side rely (everybody except the worker itself) */
#define RELY_WORKER(o, n) ((n) == (o) || ((o) == S_RUN && (n) == S_PRE) || ((o) == S_SLEEP && ((n) == S_STOPPING || (n) == S_TERM)) || \
                           ((o) == S_STOPPING && (n) == S_TERM))
/* start-up rely: a worker that comes up sets its own word to running */
#define RELY_STARTUP(o, n) ((n) == (o) || ((o) <= S_RUN && (n) == S_RUN))

#ifndef OTHER_VALID
#define OTHER_VALID(n) VALID(n)
#endif
static size_t g_v;                      /* the victim worker */
static runtime_state_t g_v_state;       /* states_[g_v] */
static runtime_state_t g_o_state;       /* stands for every other states_[i]: arbitrary at every access */
static bool g_v_joinable;               /* threads_[g_v].joinable(): protected by pu_mtxs_[g_v] */
static bool g_join_seen;                /* what the call under verification last saw of threads_[g_v].joinable() */

/* ---- linearisation ghost for the victim word ---- */
static long lin_count;                  /* our own steps on the victim word (saturating at 3) */
static runtime_state_t lin_old, lin_new, lin_first_old, lin_first_new;
static runtime_state_t g_last_read;     /* last value of the victim word this call has seen */
static long g_reads;                    /* accesses to the victim word (saturating at 2) */
static bool g_interfered;

/* ---- locks: std::mutex / std::unique_lock (environment stubs) ----
 * The mutexes live in one table so that a unique_lock can name its mutex by a small integer: a lock object that is
 * assigned inside a loop is then havocked to an integer (which a loop invariant can constrain) instead of a pointer. */
struct vx_mtx { long held; };           /* locks of this class held by the calling agent (victim class: 0 / 1) */
enum { MTX_NONE = 0, MTX_PU_V = 1, MTX_PU_O = 2, MTX_SUSP_V = 3, MTX_SUSP_O = 4, MTX_COUNT = 5 };
static struct vx_mtx g_mtx[MTX_COUNT];
#define g_v_pu_mtx g_mtx[MTX_PU_V]      /* pu_mtxs_[g_v] */
#define g_o_pu_mtx g_mtx[MTX_PU_O]      /* every other pu_mtxs_[i] */
#define g_v_susp_mtx g_mtx[MTX_SUSP_V]  /* suspend_mtxs_[g_v] */
#define g_o_susp_mtx g_mtx[MTX_SUSP_O]  /* every other suspend_mtxs_[i] */
struct ulock { int m; bool owns; };     /* std::unique_lock: m = index into g_mtx (MTX_NONE: no mutex) */
#define NO_LOCKS_HELD (g_v_pu_mtx.held == 0 && g_o_pu_mtx.held == 0 && g_v_susp_mtx.held == 0 && g_o_susp_mtx.held == 0)
static long g_yields;                   /* yield_k calls (saturating at 2) */
static void vx_yield(void) { if (g_yields < 2) g_yields++; }

static bool mtx_is_victim(int m) { return m == MTX_PU_V || m == MTX_SUSP_V; }
static void mtx_acquired(int m)
{
  /* environment step at acquisition: whoever held pu_mtxs_[g_v] before us may have added/removed the worker */
  if (m == MTX_PU_V) g_v_joinable = nondet_bool();
  g_mtx[m].held++;
}
static void mtx_release(int m)
{
  VX_ASSERT(g_mtx[m].held >= 1, "lock discipline: unlock of a mutex that is not held");
  g_mtx[m].held--;
}
static int mtx_index(struct vx_mtx *m) { return (int) (m - g_mtx); }
/* unique_lock(m, std::defer_lock) */
static struct ulock ulock_defer(struct vx_mtx *m) { struct ulock l; l.m = mtx_index(m); l.owns = false; return l; }
/* unique_lock(m) */
static struct ulock ulock_make(struct vx_mtx *m)
{
  struct ulock l;
  l.m = mtx_index(m);
  VX_ASSERT(!(mtx_is_victim(l.m) && g_mtx[l.m].held > 0), "lock discipline: blocking lock of a mutex the thread already holds (self-deadlock)");
  mtx_acquired(l.m);
  l.owns = true;
  return l;
}
/* unique_lock::try_lock: fails when somebody holds the mutex (decided by the environment), including ourselves */
static bool ulock_try_lock(struct ulock *l)
{
  VX_ASSERT(l->m != MTX_NONE && !l->owns, "unique_lock::try_lock without mutex / while owning");
  if ((mtx_is_victim(l->m) && g_mtx[l->m].held > 0) || nondet_bool()) return false;
  mtx_acquired(l->m);
  l->owns = true;
  return true;
}
/* unique_lock(m, std::try_to_lock) */
static struct ulock ulock_try(struct vx_mtx *m) { struct ulock l = ulock_defer(m); ulock_try_lock(&l); return l; }
static void ulock_unlock(struct ulock *l)
{
  VX_ASSERT(l->owns, "unique_lock::unlock without ownership");
  mtx_release(l->m);
  l->owns = false;
}
static void ulock_dtor(struct ulock *l) { if (l->owns) { mtx_release(l->m); l->owns = false; } }
/* l = std::unique_lock(...): the right-hand side has been constructed already; the old mutex is released now */
static void ulock_assign(struct ulock *l, struct ulock r) { if (l->owns) mtx_release(l->m); l->m = r.m; l->owns = r.owns; }

/* ---- containers: states_[i], pu_mtxs_[i], suspend_mtxs_[i], threads_[i] (index checked, victim / other) ---- */
static runtime_state_t *vx_state(struct scheduler *s, size_t i)
{
  VX_ASSERT(i < s->n, "states_[i]: index within the vector");
  return i == g_v ? &g_v_state : &g_o_state;
}
static struct vx_mtx *vx_pu_mtx(struct scheduler *s, size_t i)
{
  VX_ASSERT(i < s->n, "pu_mtxs_[i]: index within the vector");
  return i == g_v ? &g_v_pu_mtx : &g_o_pu_mtx;
}
static struct vx_mtx *vx_susp_mtx(struct scheduler *s, size_t i)
{
  VX_ASSERT(i < s->n, "suspend_mtxs_[i]: index within the vector");
  return i == g_v ? &g_v_susp_mtx : &g_o_susp_mtx;
}
/* std::thread::joinable of threads_[i]: stable only while pu_mtxs_[i] is held */
static bool thread_joinable(struct pool *p, size_t i)
{
  VX_ASSERT(i < p->threads_size, "threads_[i]: index within the vector");
  if (i != g_v) return nondet_bool();
  if (g_v_pu_mtx.held == 0) g_v_joinable = nondet_bool();
  g_join_seen = g_v_joinable;
  return g_v_joinable;
}

/* ---- std::condition_variable suspend_conds_[i] (environment stub) ---- */
struct vx_cv { int unused; };
static struct vx_cv g_v_cond, g_o_cond;
static long g_v_notifies;               /* notify_one calls on suspend_conds_[g_v] (saturating at 2) */
static long g_o_notifies;               /* notify_one calls on other condition variables (saturating at 2) */
static long g_waits;                    /* blocking waits of this call (saturating at 2) */
#ifndef CV_WAIT_HOOK
#define CV_WAIT_HOOK(c) do { } while (0)
#endif
static struct vx_cv *vx_cond(struct scheduler *s, size_t i)
{
  VX_ASSERT(i < s->n, "suspend_conds_[i]: index within the vector");
  return i == g_v ? &g_v_cond : &g_o_cond;
}
static void cv_notify_one(struct vx_cv *c)
{
  if (c == &g_v_cond) { if (g_v_notifies < 2) g_v_notifies++; }
  else if (g_o_notifies < 2) g_o_notifies++;
}
/* wait(l): atomically releases l and blocks; returns (possibly spuriously) with l re-acquired */
static void cv_wait(struct vx_cv *c, struct ulock *l)
{
  VX_ASSERT(l->owns, "condition_variable::wait needs the lock to be owned");
  VX_ASSERT((c == &g_v_cond) ? l->m == MTX_SUSP_V : l->m == MTX_SUSP_O, "a worker waits on its own condition variable with its own suspend mutex");
  CV_WAIT_HOOK(c);
  if (g_waits < 2) g_waits++;
  mtx_release(l->m);
  mtx_acquired(l->m);
}

/* ---- std::atomic<runtime_state> ---- */
static void interfere(runtime_state_t *p)
{
  if (p == &g_v_state)
  {
    if (nondet_bool())
    {
      runtime_state_t n = nondet_i8();
      VX_ASSUME(VALID(n) && RELY(g_v_state, n)); /* the environment's steps between two of our accesses: the unit's rely */
      if (n != g_v_state) g_interfered = true;
      g_v_state = n;
    }
  }
  else
  {
    runtime_state_t n = nondet_i8();
    VX_ASSUME(OTHER_VALID(n)); /* another worker's word: any value a per-worker word may hold (unit: OTHER_VALID) */
    *p = n;
  }
}
static void vx_step(runtime_state_t o, runtime_state_t n)
{
  VX_ASSERT(GUAR(o, n), "guarantee: the step on the worker's state word is one this function is allowed to make");
  VX_ASSERT(GRAPH(o, n), "guarantee: the step is an edge of the runtime_state transition graph");
  STEP_HOOK(o, n);
  if (lin_count == 0) { lin_first_old = o; lin_first_new = n; }
  lin_old = o;
  lin_new = n;
  if (lin_count < 3) lin_count++;
}
#ifndef READ_HOOK
#define READ_HOOK() do { } while (0)
#endif
static void vx_seen(runtime_state_t v) { READ_HOOK(); g_last_read = v; if (g_reads < 2) g_reads++; }
static runtime_state_t atomic_load(runtime_state_t *p)
{
  interfere(p);
  if (p == &g_v_state) vx_seen(*p);
  return *p;
}
static void atomic_store(runtime_state_t *p, runtime_state_t v)
{
  interfere(p);
  if (p == &g_v_state) vx_step(*p, v);
  *p = v;
}
static bool atomic_cas_strong(runtime_state_t *p, runtime_state_t *expected, runtime_state_t desired)
{
  interfere(p);
  if (*p == *expected)
  {
    if (p == &g_v_state) { vx_seen(*p); vx_step(*p, desired); }
    *p = desired;
    return true;
  }
  *expected = *p;
  if (p == &g_v_state) vx_seen(*p);
  return false;
}
/* compare_exchange_weak: as compare_exchange_strong, but may fail spuriously (expected is then reloaded) */
static bool atomic_cas_weak(runtime_state_t *p, runtime_state_t *expected, runtime_state_t desired)
{
  if (nondet_bool()) return atomic_cas_strong(p, expected, desired);
  interfere(p);
  *expected = *p;
  if (p == &g_v_state) vx_seen(*p);
  return false;
}
#endif
