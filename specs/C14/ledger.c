/* C14 unit 3 -- source ledger (I-contract) for the special members of stop_source and stop_token.
 *
 * Universe: two existing stop states g_S[0], g_S[1] and one that `new detail::stop_state` may create (g_S[2]).
 * Besides the objects the operation touches (*this, rhs) an arbitrary number of OTHER stop_sources / intrusive_ptrs
 * (g_osrc[i], g_otok[i]) refer to each state.  Ledger, for EVERY state i (property C14, last sentence):
 *     source_field(g_S[i]) == g_osrc[i] + number of live stop_source objects among {*this, rhs} owning g_S[i]
 * and, as a check of the trusted intrusive_ptr model, token_field == number of live intrusive_ptrs; stop/lock bits
 * untouched; a state is destroyed exactly when nobody refers to it any more.
 * Sequential (g_seq): an I-contract speaks about one operation at a time; the word steps themselves are the S-units. */
static void ledger_on_delete(void *p);
#define VX_DELETE_HOOK(p) ledger_on_delete(p)
#include "stop.h"
//@LIFT consts

/* ---- lifted callees (bodies, not contracts: they are trivial one-step functions) ---- */
static void stop_state_ctor(struct stop_state *self)
//@LIFT stop_state_ctor
static void add_source_count_body(struct stop_state *self)
//@LIFT add_source_count
static void remove_source_count(struct stop_state *self)
//@LIFT remove_source_count
static void intrusive_ptr_add_ref(struct stop_state *p)
//@LIFT add_ref
static void intrusive_ptr_release(struct stop_state *p)
//@LIFT release

static void add_source_count(struct stop_state *self);
/* ---- universe and books ---- */
static struct stop_state g_S[3];
static bool g_del[3];                  /* state i does not exist (not yet created / destroyed) */
static uint32_t g_osrc[3], g_otok[3];  /* stop_sources / intrusive_ptrs held by objects outside this operation */
static uint64_t g_stop0[3], g_lock0[3];
static bool g_newed;
#define VX_MANY 1000000u

static void ledger_on_delete(void *p)
{
  int i = (p == (void *) &g_S[0]) ? 0 : (p == (void *) &g_S[1]) ? 1 : 2;
  VX_ASSERT(!g_del[i], "stop state destroyed twice");
  g_del[i] = true;
}
/* the S-contract precondition of add_source_count (unit state.add_source_count: g_mysrc >= 1, "a shared state gets a new
 * source only as a copy of a live one") re-proved at every lifted call site (DESIGN 3.1): either the state is the fresh,
 * still unshared one, or a source for it is alive right now */
static void add_source_count(struct stop_state *self)
{
  VX_ASSERT((g_newed && self == &g_S[2]) || W_SRC(self->state_) >= 1,
            "add_source_count on a shared state whose source count is 0 (stop_possible would flip back from false to true)");
  add_source_count_body(self);
}
/* `new detail::stop_state` */
static struct stop_state *stop_state_new(void)
{
  VX_ASSERT(!g_newed, "ledger universe: at most one allocation per operation");
  g_newed = true;
  g_del[2] = false;
  stop_state_ctor(&g_S[2]);
  return &g_S[2];
}

/* ---- TRUSTED model of pika::memory::intrusive_ptr<stop_state> (libs/pika/memory/.../intrusive_ptr.hpp) ---- */
struct iptr { struct stop_state *px; };
static void iptr_use(struct stop_state *p)
{
  int i = (p == &g_S[0]) ? 0 : (p == &g_S[1]) ? 1 : 2;
  VX_ASSERT(!g_del[i], "use of a destroyed stop state");
}
static void iptr_ctor_default(struct iptr *self) { self->px = NULL; }
static void iptr_ctor_ptr(struct iptr *self, struct stop_state *p, bool add_ref)
{
  self->px = p;
  if (self->px != NULL && add_ref) { iptr_use(p); intrusive_ptr_add_ref(self->px); }
}
static void iptr_ctor_copy(struct iptr *self, const struct iptr *rhs)
{
  self->px = rhs->px;
  if (self->px != NULL) { iptr_use(self->px); intrusive_ptr_add_ref(self->px); }
}
static void iptr_ctor_move(struct iptr *self, struct iptr *rhs) { self->px = rhs->px; rhs->px = NULL; }
static void iptr_dtor(struct iptr *self)
{
  if (self->px != NULL) { iptr_use(self->px); intrusive_ptr_release(self->px); }
}
static void iptr_swap(struct iptr *a, struct iptr *b) { struct stop_state *t = a->px; a->px = b->px; b->px = t; }
static void iptr_assign_copy(struct iptr *self, const struct iptr *rhs)
{
  struct iptr tmp; iptr_ctor_copy(&tmp, rhs); iptr_swap(&tmp, self); iptr_dtor(&tmp);
}
static void iptr_assign_move(struct iptr *self, struct iptr *rhs)
{
  struct iptr tmp; iptr_ctor_move(&tmp, rhs); iptr_swap(&tmp, self); iptr_dtor(&tmp);
}
static bool iptr_bool(const struct iptr *self) { return self->px != NULL; }
static struct stop_state *iptr_arrow(const struct iptr *self)
{
  VX_ASSERT(self->px != NULL, "PIKA_ASSERT(px != nullptr) of intrusive_ptr::operator->");
  iptr_use(self->px);
  return self->px;
}
/* std::swap(a, b): T tmp(move(a)); a = move(b); b = move(tmp); */
static void iptr_std_swap(struct iptr *a, struct iptr *b)
{
  struct iptr tmp; iptr_ctor_move(&tmp, a); iptr_assign_move(a, b); iptr_assign_move(b, &tmp); iptr_dtor(&tmp);
}

/* stop_source and stop_token have the same data layout: one intrusive_ptr member (census checked by the lifter) */
struct obj { struct iptr state_; };
static struct obj g_objs[2];
static struct obj *g_this, *g_rhs;
static bool g_this_live, g_rhs_live;   /* liveness AFTER the operation */
static bool g_this_was_live, g_rhs_was_live;   /* liveness BEFORE the operation */
static struct iptr g_arg;              /* stop_token(intrusive_ptr const&) argument, owned by the caller */
static bool g_arg_live;

#define REFERS(o, i) ((o)->state_.px == &g_S[i])
#define N_THIS(i, tl) (((tl) && REFERS(g_this, i)) ? 1u : 0u)
#define N_RHS(i, rl)  (((rl) && g_rhs != g_this && REFERS(g_rhs, i)) ? 1u : 0u)
#define N_ARG(i)  ((g_arg_live && g_arg.px == &g_S[i]) ? 1u : 0u)
#define LIVE_PTR(i, tl, rl) ((uint64_t) g_otok[i] + N_THIS(i, tl) + N_RHS(i, rl) + N_ARG(i))
#define LIVE_SRC(i, tl, rl) ((uint64_t) g_osrc[i] + (K_SOURCE ? N_THIS(i, tl) + N_RHS(i, rl) : 0u))
#define LEDGER_SRC_(i, tl, rl) (g_del[i] || W_SRC(g_S[i].state_) == LIVE_SRC(i, tl, rl))
#define LEDGER_TOK_(i, tl, rl) (g_del[i] ? LIVE_PTR(i, tl, rl) == 0 : (W_TOK(g_S[i].state_) == LIVE_PTR(i, tl, rl) && LIVE_PTR(i, tl, rl) >= 1))
/* after the operation */
#define LEDGER_SRC(i) LEDGER_SRC_(i, g_this_live, g_rhs_live)
#define LEDGER_TOK(i) LEDGER_TOK_(i, g_this_live, g_rhs_live)
#define FLAGS_KEPT(i) (g_del[i] || (W_STOP(g_S[i].state_) == g_stop0[i] && W_LOCK(g_S[i].state_) == g_lock0[i]))
#define BOOKS_OK(i) (g_osrc[i] <= g_otok[i] && g_otok[i] <= VX_MANY)
#define LEDGER_PRE (BOOKS_OK(0) && BOOKS_OK(1) && !g_del[0] && !g_del[1] && g_del[2] && !g_newed && g_seq && \
                    LEDGER_SRC_(0, g_this_was_live, g_rhs_was_live) && LEDGER_SRC_(1, g_this_was_live, g_rhs_was_live) && \
                    LEDGER_TOK_(0, g_this_was_live, g_rhs_was_live) && LEDGER_TOK_(1, g_this_was_live, g_rhs_was_live) && \
                    g_otok[2] == 0 && g_osrc[2] == 0 && g_stop0[2] == 0 && g_lock0[2] == 0)
#define LEDGER_FRAME g_S[0].state_, g_S[1].state_, g_S[2], g_del[0], g_del[1], g_del[2], g_newed, g_deleted, vxg, \
                     g_objs[0].state_.px, g_objs[1].state_.px

#ifdef U_DEFAULT_CTOR
//@FUNC
void obj_default_ctor(struct obj *self)
__CPROVER_requires(self == g_this && LEDGER_PRE)
/* source_field(S) == number of live stop_source objects owning S, for EVERY state S (also the one owned before) */
__CPROVER_ensures(LEDGER_SRC(0) && LEDGER_SRC(1) && LEDGER_SRC(2))
/* reference field == live intrusive_ptrs; a state is destroyed exactly when unreferenced (check of the trusted intrusive_ptr model) */
__CPROVER_ensures(LEDGER_TOK(0) && LEDGER_TOK(1) && LEDGER_TOK(2))
/* stop / lock bits untouched */
__CPROVER_ensures(FLAGS_KEPT(0) && FLAGS_KEPT(1) && FLAGS_KEPT(2))
#if K_SOURCE
/* "Initialises *this to have ownership of a new stop state. Postconditions: stop_possible() is true and stop_requested() is false" */
__CPROVER_ensures(self->state_.px == &g_S[2] && !g_del[2] && W_SRC(g_S[2].state_) == 1 && !W_STOP(g_S[2].state_))
#else
__CPROVER_ensures(self->state_.px == NULL && !g_newed)
#endif
__CPROVER_assigns(LEDGER_FRAME)
//@LIFT body
#endif

#ifdef U_NOSTOP_CTOR
//@FUNC
void obj_nostop_ctor(struct obj *self)
__CPROVER_requires(self == g_this && LEDGER_PRE)
/* source_field(S) == number of live stop_source objects owning S, for EVERY state S (also the one owned before) */
__CPROVER_ensures(LEDGER_SRC(0) && LEDGER_SRC(1) && LEDGER_SRC(2))
/* reference field == live intrusive_ptrs; a state is destroyed exactly when unreferenced (check of the trusted intrusive_ptr model) */
__CPROVER_ensures(LEDGER_TOK(0) && LEDGER_TOK(1) && LEDGER_TOK(2))
/* stop / lock bits untouched */
__CPROVER_ensures(FLAGS_KEPT(0) && FLAGS_KEPT(1) && FLAGS_KEPT(2))
__CPROVER_ensures(self->state_.px == NULL && !g_newed)
__CPROVER_assigns(LEDGER_FRAME)
//@LIFT body
#endif

#ifdef U_FROM_STATE
//@FUNC
void obj_from_state(struct obj *self, const struct iptr *rhs)
__CPROVER_requires(self == g_this && rhs == &g_arg && LEDGER_PRE)
/* source_field(S) == number of live stop_source objects owning S, for EVERY state S (also the one owned before) */
__CPROVER_ensures(LEDGER_SRC(0) && LEDGER_SRC(1) && LEDGER_SRC(2))
/* reference field == live intrusive_ptrs; a state is destroyed exactly when unreferenced (check of the trusted intrusive_ptr model) */
__CPROVER_ensures(LEDGER_TOK(0) && LEDGER_TOK(1) && LEDGER_TOK(2))
/* stop / lock bits untouched */
__CPROVER_ensures(FLAGS_KEPT(0) && FLAGS_KEPT(1) && FLAGS_KEPT(2))
__CPROVER_ensures(self->state_.px == g_arg.px)
__CPROVER_assigns(LEDGER_FRAME)
//@LIFT body
#endif

#ifdef U_COPY_CTOR
//@FUNC
void obj_copy_ctor(struct obj *self, struct obj *rhs)
__CPROVER_requires(self == g_this && rhs == g_rhs && self != rhs && LEDGER_PRE)
/* source_field(S) == number of live stop_source objects owning S, for EVERY state S (also the one owned before) */
__CPROVER_ensures(LEDGER_SRC(0) && LEDGER_SRC(1) && LEDGER_SRC(2))
/* reference field == live intrusive_ptrs; a state is destroyed exactly when unreferenced (check of the trusted intrusive_ptr model) */
__CPROVER_ensures(LEDGER_TOK(0) && LEDGER_TOK(1) && LEDGER_TOK(2))
/* stop / lock bits untouched */
__CPROVER_ensures(FLAGS_KEPT(0) && FLAGS_KEPT(1) && FLAGS_KEPT(2))
__CPROVER_ensures(self->state_.px == rhs->state_.px && rhs->state_.px == __CPROVER_old(rhs->state_.px))
__CPROVER_assigns(LEDGER_FRAME)
//@LIFT body
#endif

#ifdef U_MOVE_CTOR
//@FUNC
void obj_move_ctor(struct obj *self, struct obj *rhs)
__CPROVER_requires(self == g_this && rhs == g_rhs && self != rhs && LEDGER_PRE)
/* source_field(S) == number of live stop_source objects owning S, for EVERY state S (also the one owned before) */
__CPROVER_ensures(LEDGER_SRC(0) && LEDGER_SRC(1) && LEDGER_SRC(2))
/* reference field == live intrusive_ptrs; a state is destroyed exactly when unreferenced (check of the trusted intrusive_ptr model) */
__CPROVER_ensures(LEDGER_TOK(0) && LEDGER_TOK(1) && LEDGER_TOK(2))
/* stop / lock bits untouched */
__CPROVER_ensures(FLAGS_KEPT(0) && FLAGS_KEPT(1) && FLAGS_KEPT(2))
__CPROVER_ensures(self->state_.px == __CPROVER_old(rhs->state_.px) && rhs->state_.px == NULL)
__CPROVER_assigns(LEDGER_FRAME)
//@LIFT body
#endif

#ifdef U_COPY_ASSIGN
//@FUNC
struct obj *obj_copy_assign(struct obj *self, struct obj *rhs)
__CPROVER_requires(self == g_this && rhs == g_rhs && LEDGER_PRE)
/* source_field(S) == number of live stop_source objects owning S, for EVERY state S (also the one owned before) */
__CPROVER_ensures(LEDGER_SRC(0) && LEDGER_SRC(1) && LEDGER_SRC(2))
/* reference field == live intrusive_ptrs; a state is destroyed exactly when unreferenced (check of the trusted intrusive_ptr model) */
__CPROVER_ensures(LEDGER_TOK(0) && LEDGER_TOK(1) && LEDGER_TOK(2))
/* stop / lock bits untouched */
__CPROVER_ensures(FLAGS_KEPT(0) && FLAGS_KEPT(1) && FLAGS_KEPT(2))
__CPROVER_ensures(self->state_.px == __CPROVER_old(rhs->state_.px) && rhs->state_.px == __CPROVER_old(rhs->state_.px) && __CPROVER_return_value == self)
__CPROVER_assigns(LEDGER_FRAME)
//@LIFT body
#endif

#ifdef U_MOVE_ASSIGN
//@FUNC
struct obj *obj_move_assign(struct obj *self, struct obj *rhs)
__CPROVER_requires(self == g_this && rhs == g_rhs && LEDGER_PRE)
/* source_field(S) == number of live stop_source objects owning S, for EVERY state S (also the one owned before) */
__CPROVER_ensures(LEDGER_SRC(0) && LEDGER_SRC(1) && LEDGER_SRC(2))
/* reference field == live intrusive_ptrs; a state is destroyed exactly when unreferenced (check of the trusted intrusive_ptr model) */
__CPROVER_ensures(LEDGER_TOK(0) && LEDGER_TOK(1) && LEDGER_TOK(2))
/* stop / lock bits untouched */
__CPROVER_ensures(FLAGS_KEPT(0) && FLAGS_KEPT(1) && FLAGS_KEPT(2))
/* self-move leaves a valid but unspecified value: only the ledger is required then */
__CPROVER_ensures(self == rhs || (self->state_.px == __CPROVER_old(rhs->state_.px) && rhs->state_.px == NULL))
__CPROVER_ensures(__CPROVER_return_value == self)
__CPROVER_assigns(LEDGER_FRAME)
//@LIFT body
#endif

#ifdef U_DTOR
//@FUNC
void obj_dtor(struct obj *self)
__CPROVER_requires(self == g_this && LEDGER_PRE)
/* source_field(S) == number of live stop_source objects owning S, for EVERY state S (also the one owned before) */
__CPROVER_ensures(LEDGER_SRC(0) && LEDGER_SRC(1) && LEDGER_SRC(2))
/* reference field == live intrusive_ptrs; a state is destroyed exactly when unreferenced (check of the trusted intrusive_ptr model) */
__CPROVER_ensures(LEDGER_TOK(0) && LEDGER_TOK(1) && LEDGER_TOK(2))
/* stop / lock bits untouched */
__CPROVER_ensures(FLAGS_KEPT(0) && FLAGS_KEPT(1) && FLAGS_KEPT(2))
__CPROVER_assigns(LEDGER_FRAME)
//@LIFT body
#endif

#ifdef U_SWAP
//@FUNC
void obj_swap(struct obj *self, struct obj *rhs)
__CPROVER_requires(self == g_this && rhs == g_rhs && LEDGER_PRE)
/* source_field(S) == number of live stop_source objects owning S, for EVERY state S (also the one owned before) */
__CPROVER_ensures(LEDGER_SRC(0) && LEDGER_SRC(1) && LEDGER_SRC(2))
/* reference field == live intrusive_ptrs; a state is destroyed exactly when unreferenced (check of the trusted intrusive_ptr model) */
__CPROVER_ensures(LEDGER_TOK(0) && LEDGER_TOK(1) && LEDGER_TOK(2))
/* stop / lock bits untouched */
__CPROVER_ensures(FLAGS_KEPT(0) && FLAGS_KEPT(1) && FLAGS_KEPT(2))
__CPROVER_ensures(self->state_.px == __CPROVER_old(rhs->state_.px) && rhs->state_.px == __CPROVER_old(self->state_.px))
__CPROVER_assigns(LEDGER_FRAME)
//@LIFT body
#endif

static struct stop_state *pick_state(void)
{
  uint8_t c = nondet_u8();
  return c == 0 ? NULL : c == 1 ? &g_S[0] : &g_S[1];
}

void harness(void)
{
  bool this_live_before, rhs_live_before = false, arg_live = false, may_alias = false;
  g_seq = true; lin = false; g_held = false; g_mytok = 0; g_mysrc = 0; g_deleted = 0; g_newed = false;
  g_this = &g_objs[0];
  g_rhs = &g_objs[1];
  g_objs[0].state_.px = pick_state();   /* for constructors: indeterminate storage */
  g_objs[1].state_.px = pick_state();
  g_arg.px = pick_state();
#if defined(U_DEFAULT_CTOR) || defined(U_NOSTOP_CTOR)
  this_live_before = false; g_this_live = true; g_rhs_live = false;
#elif defined(U_FROM_STATE)
  this_live_before = false; g_this_live = true; g_rhs_live = false; arg_live = true;
#elif defined(U_COPY_CTOR) || defined(U_MOVE_CTOR)
  this_live_before = false; g_this_live = true; rhs_live_before = true; g_rhs_live = true;
#elif defined(U_DTOR)
  this_live_before = true; g_this_live = false; g_rhs_live = false;
#else /* assignment, swap */
  this_live_before = true; g_this_live = true; rhs_live_before = true; g_rhs_live = true; may_alias = true;
#endif
  if (may_alias && nondet_bool()) g_rhs = g_this;   /* self-assignment / self-swap */
  g_arg_live = arg_live;
  for (int i = 0; i < 2; i++)
  {
    g_del[i] = false;
    g_osrc[i] = nondet_u32();
    g_otok[i] = nondet_u32();
    g_stop0[i] = nondet_bool() ? 1 : 0;
    g_lock0[i] = nondet_bool() ? 1 : 0;
    uint64_t n = (this_live_before && REFERS(g_this, i) ? 1u : 0u) + (rhs_live_before && g_rhs != g_this && REFERS(g_rhs, i) ? 1u : 0u);
    uint64_t tok = (uint64_t) g_otok[i] + n + (arg_live && g_arg.px == &g_S[i] ? 1u : 0u);
    uint64_t src = (uint64_t) g_osrc[i] + (K_SOURCE ? n : 0u);
    g_S[i].state_ = W_MAKE(tok & 0x7fffffffu, g_stop0[i], src & 0x7fffffffu, g_lock0[i]);
    g_S[i].callbacks_ = NULL;
    g_S[i].signalling_thread_ = 0;
  }
  g_del[2] = true; g_osrc[2] = 0; g_otok[2] = 0; g_stop0[2] = 0; g_lock0[2] = 0;
  g_S[2].state_ = nondet_u64();
  struct stop_state *this0 = g_this->state_.px, *rhs0 = g_rhs->state_.px;
  g_this_was_live = this_live_before; g_rhs_was_live = rhs_live_before;
  if (!(LEDGER_PRE)) return;   /* holds by construction whenever the books are in range (no wrap-around of the 31-bit fields) */
#ifdef U_DEFAULT_CTOR
  obj_default_ctor(g_this);
  VX_REACH("constructed");
#endif
#ifdef U_NOSTOP_CTOR
  obj_nostop_ctor(g_this);
  VX_REACH("constructed");
#endif
#ifdef U_FROM_STATE
  obj_from_state(g_this, &g_arg);
  if (g_arg.px != NULL) VX_REACH("shares_state"); else VX_REACH("empty");
#endif
#if defined(U_COPY_CTOR) || defined(U_MOVE_CTOR)
#ifdef U_COPY_CTOR
  obj_copy_ctor(g_this, g_rhs);
#else
  obj_move_ctor(g_this, g_rhs);
#endif
  if (rhs0 != NULL) VX_REACH("from_owner"); else VX_REACH("from_empty");
#endif
#if defined(U_COPY_ASSIGN) || defined(U_MOVE_ASSIGN) || defined(U_SWAP)
#if defined(U_COPY_ASSIGN)
  obj_copy_assign(g_this, g_rhs);
#elif defined(U_MOVE_ASSIGN)
  obj_move_assign(g_this, g_rhs);
#else
  obj_swap(g_this, g_rhs);
#endif
  if (g_rhs == g_this) VX_REACH("self");
  if (g_rhs != g_this && this0 != NULL && rhs0 != NULL && this0 != rhs0) VX_REACH("two_different_states");
  if (g_rhs != g_this && this0 != NULL && this0 == rhs0) VX_REACH("same_state");
  if (g_rhs != g_this && this0 != NULL && rhs0 == NULL) VX_REACH("from_empty");
  if (g_rhs != g_this && this0 == NULL && rhs0 != NULL) VX_REACH("into_empty");
#ifndef U_SWAP
  if (g_del[0] || g_del[1]) VX_REACH("old_state_destroyed");
#endif
#endif
#ifdef U_DTOR
  obj_dtor(g_this);
  if (this0 == NULL) VX_REACH("empty");
  if (g_del[0] || g_del[1]) VX_REACH("last_owner"); 
  if (this0 != NULL && !g_del[0] && !g_del[1]) VX_REACH("others_remain");
#endif
}
