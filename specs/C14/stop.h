/* C14 -- stop_state / stop_callback_base / stop_source as C types, the SPEC view of the state word and the
 * rely/guarantee machinery (S-contracts) for stop_state::state_.
 *
 * SPEC layout of the word (properties.jsonl C14, anchors.state): token ref count bits 0-30, stop-requested
 * bit 31, source ref count bits 32-62, lock bit 63.  The W_* macros below are written from that sentence with
 * literal numbers; the constants pika really uses (token_ref_mask, locked_flag, ...) are LIFTED from the
 * header into every unit (//@LIFT consts) and unit word.layout proves that both views coincide. */
#ifndef C14_STOP_H
#define C14_STOP_H
#include "vx.h"

struct stop_callback_base {
  struct stop_callback_base *next_;
  struct stop_callback_base **prev_;
  bool *is_removed_;
  /* the non-pointer members live in one sub-struct so that frame conditions need one target for them (dfcc must not
   * havoc pointer members as part of a whole object: byte-wise havoc destroys CBMC's points-to information) */
  struct {
    bool fin_;                          /* std::atomic<bool> callback_finished_executing_ */
    int exec_;                          /* ghost: number of times execute() ran (saturating at 2) */
    bool dead_;                         /* ghost: the stop_callback object has been destroyed (its destructor returned) */
  } m;
};
#define callback_finished_executing_ m.fin_
#define g_exec m.exec_
#define g_dead m.dead_
struct stop_state {
  uint64_t state_;                      /* std::atomic<std::uint64_t> */
  struct stop_callback_base *callbacks_;
  long signalling_thread_;              /* thread_id_type, opaque token; 0 = invalid_thread_id */
};

/* ---- SPEC view of the word ---- */
#define W_TOK(w)  ((uint64_t)(w) & 0x7fffffffull)
#define W_STOP(w) ((((uint64_t)(w)) >> 31) & 1ull)
#define W_SRC(w)  ((((uint64_t)(w)) >> 32) & 0x7fffffffull)
#define W_LOCK(w) ((((uint64_t)(w)) >> 63) & 1ull)
#define W_MAKE(tok, stop, src, lock) (((uint64_t)(tok)) | (((uint64_t)(stop)) << 31) | (((uint64_t)(src)) << 32) | (((uint64_t)(lock)) << 63))
#define S_LOCKBIT (1ull << 63)
#define S_STOPBIT (1ull << 31)
#define S_TOK_ONE 1ull
#define S_SRC_ONE (1ull << 32)
#define SAME_EXCEPT_TOK(o, n)  (W_STOP(o) == W_STOP(n) && W_SRC(o) == W_SRC(n) && W_LOCK(o) == W_LOCK(n))
#define SAME_EXCEPT_SRC(o, n)  (W_STOP(o) == W_STOP(n) && W_TOK(o) == W_TOK(n) && W_LOCK(o) == W_LOCK(n))
#define SAME_EXCEPT_LOCK(o, n) (W_STOP(o) == W_STOP(n) && W_TOK(o) == W_TOK(n) && W_SRC(o) == W_SRC(n))
#define SAME_COUNTS(o, n)      (W_TOK(o) == W_TOK(n) && W_SRC(o) == W_SRC(n))
/* environment assumption (listed): fewer than 2^31-1 references of either kind are alive at any time, so that an
 * increment cannot carry into the neighbouring flag bit (pika has no overflow check on the 31-bit fields) */
#define W_ROOM 0x7ffffffeull
#define W_INV(w) (W_TOK(w) <= W_ROOM && W_SRC(w) <= W_ROOM)

/* ---- rely / guarantee, parameterised by the ghost ownership of the agent ----
 * held   : the agent holds the lock bit           mytok/mysrc : references the agent owns (only they may be dropped)
 * RELY  = what any number of steps of OTHER agents may do to the word as seen by this agent
 * GUAR  = what ONE step of this agent may do (must be admissible interference for everybody else; lemma unit) */
/* "stop_possible is true exactly while a stop was requested or a stop_source exists": once neither holds it stays so --
 * sources are made only from sources and request_stop is reachable only through a source (preconditions g_mysrc >= 1 of
 * add_source_count / lock_and_request_stop) */
#define STOP_IMPOSSIBLE_STABLE(o, n) (!(W_SRC(o) == 0 && !W_STOP(o)) || (W_SRC(n) == 0 && !W_STOP(n)))
#define RELY_G(o, n, held, mytok, mysrc) \
  (W_STOP(n) >= W_STOP(o) && (!(held) || (W_LOCK(n) && W_STOP(n) == W_STOP(o))) /* nobody else unlocks or requests stop while we hold the lock */ \
   && W_TOK(n) >= (uint64_t)(mytok) && W_SRC(n) >= (uint64_t)(mysrc) && W_INV(n) \
   && STOP_IMPOSSIBLE_STABLE(o, n))
#define GUAR_G(o, n, held, mytok, mysrc) \
  (W_STOP(n) >= W_STOP(o) /* the stop bit is never cleared */ \
   && (W_STOP(n) == W_STOP(o) || (!W_LOCK(o) && W_LOCK(n))) /* the stop bit is set only together with taking the lock */ \
   && (!(W_LOCK(o) && !W_LOCK(n)) || (held)) /* only the holder clears the lock bit */ \
   && W_TOK(n) + (uint64_t)(mytok) >= W_TOK(o) && W_SRC(n) + (uint64_t)(mysrc) >= W_SRC(o) /* only own references are dropped */ \
   && STOP_IMPOSSIBLE_STABLE(o, n))

/* ---- ghost of the call under verification ---- */
/* (one struct, so that frame conditions have one target instead of eight: dfcc's write-set checks are quadratic) */
static struct vx_ghost {
  bool lin_;                    /* the call has performed its (one) successful atomic step on state_ */
  uint64_t lin_old_, lin_new_;  /* word before / after that step */
  uint64_t last_read_;          /* last value the call observed without changing the word */
  bool held_;                   /* this agent holds the lock bit */
  unsigned mytok_, mysrc_;      /* references owned by this agent */
  bool interfered_;             /* the environment changed the word at least once during the call */
} vxg;
#define lin vxg.lin_
#define lin_old vxg.lin_old_
#define lin_new vxg.lin_new_
#define g_last_read vxg.last_read_
#define g_held vxg.held_
#define g_mytok vxg.mytok_
#define g_mysrc vxg.mysrc_
#define g_interfered vxg.interfered_
static bool g_seq;                     /* sequential units (ledger): no interference, steps not limited to one */
static int g_deleted;                  /* number of `delete p` executed */
static long g_self_id;                 /* get_self_id() of the calling thread */

#define RELY(o, n) RELY_G(o, n, g_held, g_mytok, g_mysrc)
/* common postcondition shapes of S-contracts.  w0/h0/t0/s0 = word and ghost ownership at entry (__CPROVER_old).
 * The step started from a word the environment could produce from the entry word; at return the word is the result of
 * the step (later environment steps are applied at the caller's next access). */
#define S_STEPPED(p, w0, h0, t0, s0) (lin && (p)->state_ == lin_new && RELY_G(w0, lin_old, h0, t0, s0))
#define S_OBSERVED(p, w0, h0, t0, s0) (!lin && (p)->state_ == g_last_read && RELY_G(w0, g_last_read, h0, t0, s0))
#define GUAR(o, n) GUAR_G(o, n, g_held, g_mytok, g_mysrc)

/* frame and precondition common to all S-contracts on state_ */
#define S_FRAME self->state_, vxg
#define S_PRE(self) (!lin && !g_seq && W_INV((self)->state_) && W_TOK((self)->state_) >= g_mytok && W_SRC((self)->state_) >= g_mysrc && (!g_held || W_LOCK((self)->state_)))

/* TRUSTED environment step: before every access other agents may have changed the word within the rely */
static void interfere(uint64_t *p)
{
  if (!g_seq && nondet_bool())
  {
    uint64_t n = nondet_u64();
    VX_ASSUME(RELY(*p, n)); /* rely: stop bit stays, our lock stays ours, our references stay counted, counts < 2^31-1 */
    if (n != *p) g_interfered = true;
    *p = n;
  }
}
/* one successful atomic step of the call under verification */
static void vx_step(uint64_t *p, uint64_t desired)
{
  if (!g_seq) VX_ASSERT(!lin, "at most one successful atomic step on state_ per call");
  lin_old = *p;
  lin_new = desired;
  lin = true;
  /* sequential (ledger) units keep their own books and do not track g_mytok/g_mysrc */
  if (!g_seq) VX_ASSERT(GUAR(lin_old, lin_new), "guarantee: stop bit never cleared and set only while taking the lock, lock bit cleared only by its holder, only own references dropped");
  if (!g_seq && W_TOK(lin_old) > W_TOK(lin_new)) g_mytok -= (unsigned) (W_TOK(lin_old) - W_TOK(lin_new));
  if (!g_seq && W_SRC(lin_old) > W_SRC(lin_new)) g_mysrc -= (unsigned) (W_SRC(lin_old) - W_SRC(lin_new));
  if (!W_LOCK(lin_old) && W_LOCK(lin_new)) g_held = true;
  if (W_LOCK(lin_old) && !W_LOCK(lin_new)) g_held = false;
  *p = desired;
}
/* std::atomic<uint64_t>::load */
static uint64_t atomic_load(uint64_t *p)
{
  interfere(p);
  g_last_read = *p;
  return *p;
}
/* compare_exchange_weak: may fail spuriously; on failure `expected` receives the current value */
static bool atomic_cas_weak(uint64_t *p, uint64_t *expected, uint64_t desired)
{
  interfere(p);
  if (*p == *expected && (g_seq || nondet_bool()))   /* sequential units: no spurious failure */
  {
    vx_step(p, desired);
    return true;
  }
  *expected = *p;
  g_last_read = *p;
  return false;
}
/* fetch_add / fetch_sub: always succeed, return the previous value; wrap-around is that of the real type */
static uint64_t atomic_fetch_add(uint64_t *p, uint64_t v)
{
  interfere(p);
  uint64_t old = *p;
  vx_step(p, old + v);
  return old;
}
/* store: an unconditional step from whatever the word holds now (after the environment's steps) to `desired` */
static void atomic_store(uint64_t *p, uint64_t desired)
{
  interfere(p);
  vx_step(p, desired);
}
static uint64_t atomic_fetch_sub(uint64_t *p, uint64_t v)
{
  interfere(p);
  uint64_t old = *p;
  vx_step(p, old - v);
  return old;
}
/* yield_k(k, "..."): environment stub -- spinning gives other agents time; their steps are the interference
 * already applied at the next atomic access.  Termination of the spinning is NOT decided. */
static void yield_k(size_t k) { (void) k; }

/* `delete p` */
#ifndef VX_DELETE_HOOK
#define VX_DELETE_HOOK(p)
#endif
static void stop_state_delete(struct stop_state *p) { (void) p; if (g_deleted < 2) g_deleted++; VX_DELETE_HOOK(p); }

/* cb->execute(): user callback (T-contract: per-callback execution counter, order predicates) */
#ifndef VX_CB_EXECUTE_HOOK
#define VX_CB_EXECUTE_HOOK(cb)
#endif
static void cb_execute(struct stop_callback_base *cb)
{
  VX_ASSERT(!g_held, "callback executed while the state lock is held");
  VX_ASSERT(!cb->g_dead, "callback invoked after its stop_callback was destroyed");
  VX_ASSERT(cb->g_exec == 0, "callback executed more than once");
  VX_ASSERT(!cb->callback_finished_executing_, "callback executed after its finished flag was published");
  if (cb->g_exec < 2) cb->g_exec++;
  VX_CB_EXECUTE_HOOK(cb);
}
/* cb->callback_finished_executing_.store(v) */
static void flag_store(struct stop_callback_base *cb, bool v)
{
  VX_ASSERT(!cb->g_dead, "finished flag written into a destroyed stop_callback");
  VX_ASSERT(cb->g_exec >= 1, "finished flag published before the callback ran");
  cb->callback_finished_executing_ = v;
}

#endif
