/* C14 unit 2 -- stop_state::state_: rely/guarantee step contracts (S) */
#include "stop.h"

/* the constants pika uses, lifted from stop_token.hpp as #defines */
//@LIFT consts

/* word predicates (lifted) */
static bool is_locked(uint64_t state)
//@LIFT is_locked
static bool stop_requested(uint64_t state)
//@LIFT stop_requested_w
static bool stop_possible(uint64_t state)
//@LIFT stop_possible_w


#ifdef U_LOCK
//@FUNC
void lock(struct stop_state *self)
__CPROVER_requires(S_PRE(self) && !g_held)
/* the lock bit is set by this call's single step, from clear, and nothing else changes */
__CPROVER_ensures(lin && !W_LOCK(lin_old) && lin_new == (lin_old | S_LOCKBIT) && g_held)
__CPROVER_ensures(S_STEPPED(self, __CPROVER_old(self->state_), __CPROVER_old(g_held), __CPROVER_old(g_mytok), __CPROVER_old(g_mysrc)))
__CPROVER_ensures(g_mytok == __CPROVER_old(g_mytok) && g_mysrc == __CPROVER_old(g_mysrc)) /* no reference is dropped */
__CPROVER_assigns(S_FRAME)
//@LIFT body
#endif

#ifdef U_UNLOCK
//@FUNC
void unlock(struct stop_state *self)
__CPROVER_requires(S_PRE(self) && g_held)
__CPROVER_ensures(lin && W_LOCK(lin_old) && lin_new == (lin_old & ~S_LOCKBIT) && !g_held)
__CPROVER_ensures(S_STEPPED(self, __CPROVER_old(self->state_), __CPROVER_old(g_held), __CPROVER_old(g_mytok), __CPROVER_old(g_mysrc)))
__CPROVER_ensures(g_mytok == __CPROVER_old(g_mytok) && g_mysrc == __CPROVER_old(g_mysrc)) /* no reference is dropped */
__CPROVER_assigns(S_FRAME)
//@LIFT body
#endif

#ifdef U_LOCK_AND_REQUEST_STOP
//@FUNC
bool lock_and_request_stop(struct stop_state *self)
__CPROVER_requires(S_PRE(self) && !g_held && g_mysrc >= 1 /* request_stop is reachable only through a stop_source */)
/* true <=> ITS step turned the stop bit 0 -> 1 (and took the lock, from clear), nothing else changed */
__CPROVER_ensures(__CPROVER_return_value ==> (lin && !W_STOP(lin_old) && !W_LOCK(lin_old) && lin_new == (lin_old | S_STOPBIT | S_LOCKBIT) && g_held))
/* false <=> it observed the stop bit already set, and did not touch the word */
__CPROVER_ensures(!__CPROVER_return_value ==> (!lin && W_STOP(g_last_read) && !g_held))
__CPROVER_ensures(__CPROVER_return_value ? S_STEPPED(self, __CPROVER_old(self->state_), __CPROVER_old(g_held), __CPROVER_old(g_mytok), __CPROVER_old(g_mysrc)) : S_OBSERVED(self, __CPROVER_old(self->state_), __CPROVER_old(g_held), __CPROVER_old(g_mytok), __CPROVER_old(g_mysrc)))
__CPROVER_ensures(g_mytok == __CPROVER_old(g_mytok) && g_mysrc == __CPROVER_old(g_mysrc)) /* no reference is dropped */
__CPROVER_assigns(S_FRAME)
//@LIFT body
#endif

#ifdef U_LOCK_IF_NOT_STOPPED
//@FUNC
bool lock_if_not_stopped(struct stop_state *self, struct stop_callback_base *cb)
__CPROVER_requires(S_PRE(self) && !g_held && cb->g_exec == 0 && !cb->callback_finished_executing_ && !cb->g_dead)
/* true only if its step started from a word with the stop bit clear; it took the lock from clear, the callback did not run */
__CPROVER_ensures(__CPROVER_return_value ==> (lin && !W_STOP(lin_old) && !W_LOCK(lin_old) && lin_new == (lin_old | S_LOCKBIT) && g_held && cb->g_exec == 0 && !cb->callback_finished_executing_))
__CPROVER_ensures(!cb->g_dead)
/* false: word untouched, and either stop was already requested and the callback ran inline exactly once (flag published)
 * or stop is impossible and nothing happened */
__CPROVER_ensures(!__CPROVER_return_value ==> (!lin && !g_held &&
     ((W_STOP(g_last_read) && cb->g_exec == 1 && cb->callback_finished_executing_) ||
      (!W_STOP(g_last_read) && W_SRC(g_last_read) == 0 && cb->g_exec == 0 && !cb->callback_finished_executing_))))
__CPROVER_ensures(__CPROVER_return_value ? S_STEPPED(self, __CPROVER_old(self->state_), __CPROVER_old(g_held), __CPROVER_old(g_mytok), __CPROVER_old(g_mysrc)) : S_OBSERVED(self, __CPROVER_old(self->state_), __CPROVER_old(g_held), __CPROVER_old(g_mytok), __CPROVER_old(g_mysrc)))
__CPROVER_ensures(g_mytok == __CPROVER_old(g_mytok) && g_mysrc == __CPROVER_old(g_mysrc)) /* no reference is dropped */
__CPROVER_assigns(S_FRAME, cb->m)
//@LIFT body
#endif

#ifdef U_ADD_SOURCE_COUNT
//@FUNC
void add_source_count(struct stop_state *self)
__CPROVER_requires(S_PRE(self) && g_mysrc >= 1 /* a shared state gets a new source only as a copy of a live one */)
__CPROVER_ensures(lin && W_SRC(lin_new) == W_SRC(lin_old) + 1 && SAME_EXCEPT_SRC(lin_old, lin_new))
__CPROVER_ensures(S_STEPPED(self, __CPROVER_old(self->state_), __CPROVER_old(g_held), __CPROVER_old(g_mytok), __CPROVER_old(g_mysrc)))
__CPROVER_assigns(S_FRAME)
//@LIFT body
#endif

#ifdef U_REMOVE_SOURCE_COUNT
//@FUNC
void remove_source_count(struct stop_state *self)
__CPROVER_requires(S_PRE(self) && g_mysrc == 1)
__CPROVER_ensures(lin && W_SRC(lin_new) + 1 == W_SRC(lin_old) && SAME_EXCEPT_SRC(lin_old, lin_new) && g_mysrc == 0)
__CPROVER_ensures(S_STEPPED(self, __CPROVER_old(self->state_), __CPROVER_old(g_held), __CPROVER_old(g_mytok), __CPROVER_old(g_mysrc)))
__CPROVER_assigns(S_FRAME)
//@LIFT body
#endif

#ifdef U_ADD_REF
//@FUNC
void intrusive_ptr_add_ref(struct stop_state *p)
__CPROVER_requires(S_PRE(p))
__CPROVER_ensures(lin && W_TOK(lin_new) == W_TOK(lin_old) + 1 && SAME_EXCEPT_TOK(lin_old, lin_new) && g_deleted == 0)
__CPROVER_ensures(S_STEPPED(p, __CPROVER_old(p->state_), __CPROVER_old(g_held), __CPROVER_old(g_mytok), __CPROVER_old(g_mysrc)))
__CPROVER_assigns(p->state_, vxg)
//@LIFT body
#endif

#ifdef U_RELEASE
//@FUNC
void intrusive_ptr_release(struct stop_state *p)
__CPROVER_requires(S_PRE(p) && g_mytok == 1 && g_deleted == 0)
__CPROVER_ensures(lin && W_TOK(lin_new) + 1 == W_TOK(lin_old) && SAME_EXCEPT_TOK(lin_old, lin_new) && g_mytok == 0)
__CPROVER_ensures(S_STEPPED(p, __CPROVER_old(p->state_), __CPROVER_old(g_held), __CPROVER_old(g_mytok), __CPROVER_old(g_mysrc)))
/* the state is destroyed exactly by the call that dropped the last reference */
__CPROVER_ensures((g_deleted == 1) == (W_TOK(lin_old) == 1) && g_deleted <= 1)
__CPROVER_assigns(p->state_, vxg, g_deleted)
//@LIFT body
#endif

void harness(void)
{
  struct stop_state s;
  struct stop_callback_base cb;
  s.state_ = nondet_u64();
  s.callbacks_ = NULL;
  s.signalling_thread_ = 0;
  cb.next_ = NULL; cb.prev_ = NULL; cb.is_removed_ = NULL; cb.callback_finished_executing_ = false; cb.g_exec = 0; cb.g_dead = false;
  lin = false; g_seq = false; g_interfered = false; g_deleted = 0;
  g_held = false; g_mytok = nondet_bool() ? 1 : 0; g_mysrc = nondet_bool() ? 1 : 0;
  uint64_t w0 = s.state_;
#ifdef U_LOCK
  lock(&s);
  VX_REACH("locked");
  if (g_interfered) VX_REACH("locked_after_interference");
  if (W_LOCK(w0)) VX_REACH("was_locked_by_other");
#endif
#ifdef U_UNLOCK
  g_held = true;
  unlock(&s);
  VX_REACH("unlocked");
  if (g_interfered) VX_REACH("unlocked_after_interference");
#endif
#ifdef U_LOCK_AND_REQUEST_STOP
  g_mysrc = 1;
  bool r = lock_and_request_stop(&s);
  if (r) VX_REACH("won"); else VX_REACH("lost");
  if (r && g_interfered) VX_REACH("won_after_interference");
  if (!r && !W_STOP(w0)) VX_REACH("lost_to_concurrent_request");
#endif
#ifdef U_LOCK_IF_NOT_STOPPED
  bool r = lock_if_not_stopped(&s, &cb);
  if (r) VX_REACH("locked");
  if (!r && cb.g_exec == 1) VX_REACH("executed_inline");
  if (!r && cb.g_exec == 0) VX_REACH("stop_impossible");
  if (!r && cb.g_exec == 1 && !W_STOP(w0)) VX_REACH("executed_inline_after_concurrent_request");
#endif
#ifdef U_ADD_SOURCE_COUNT
  g_mysrc = 1;
  add_source_count(&s);
  VX_REACH("added");
  if (g_interfered) VX_REACH("added_after_interference");
#endif
#ifdef U_REMOVE_SOURCE_COUNT
  g_mysrc = 1;
  remove_source_count(&s);
  VX_REACH("removed");
  if (W_SRC(lin_new) == 0) VX_REACH("last_source");
#endif
#ifdef U_ADD_REF
  intrusive_ptr_add_ref(&s);
  VX_REACH("added");
#endif
#ifdef U_RELEASE
  g_mytok = 1;
  intrusive_ptr_release(&s);
  if (g_deleted) VX_REACH("deleted_last"); else VX_REACH("released_not_last");
#endif
}
