/* C14 unit 4b-d -- stop_state::add_callback / remove_callback / request_stop (M + T contracts, one symbolic victim callback)
 *
 * The callback list is protected by the lock bit of state_.  The word operations are used through their S-CONTRACTS
 * (spliced in verbatim from word.c, where they are proved): lock, unlock, lock_and_request_stop, lock_if_not_stopped.
 *
 * Heap abstraction ("window"): the code under contract touches, per critical section, only the head cell, the first node,
 * the second node's back link and the callback passed in.  The universe is therefore the victim g_V plus two ANONYMOUS
 * nodes g_A, g_B that stand for "whatever node is first / second right now"; whenever the lock is (re)acquired the window is
 * re-materialised from the monitor invariant, so g_A/g_B denote different real nodes in different critical sections and the
 * list length is unbounded.  What is tracked exactly is the victim: g_V.g_exec (executions), g_V.g_dead (destructor returned).
 *
 * Monitor invariant (asserted at every release, assumed at every acquire):
 *   HEAD_WF     callbacks_ == NULL  or  callbacks_->prev_ == &callbacks_
 *   LINKED_NEW  every node in the list has g_exec == 0, finished flag clear, is not destroyed
 *   V_REACH     LISTED(V) ==> V is reachable from callbacks_   (in particular the list is not empty)
 *   V_ONCE      V.g_exec <= 1;  V.g_exec == 1 ==> V was dequeued (prev_ == NULL) */
#define VX_CB_EXECUTE_HOOK(cb) cb_user_code(cb)
struct stop_callback_base;
static void cb_user_code(struct stop_callback_base *cb);
#include "stop.h"
//@LIFT consts
static bool is_locked(uint64_t state)
//@LIFT is_locked
static bool stop_requested(uint64_t state)
//@LIFT stop_requested_w
static bool stop_possible(uint64_t state)
//@LIFT stop_possible_w

/* ---- S-contracts of the word operations (verbatim from word.c; proved there) ---- */
//@LIFT callee_contracts

#ifdef U_BOUNDED
/* bounded stand-in only: the real bodies of the word operations, run sequentially (g_seq) */
void lock(struct stop_state *self)
//@LIFT b_lock
void unlock(struct stop_state *self)
//@LIFT b_unlock
bool lock_and_request_stop(struct stop_state *self)
//@LIFT b_lars
#endif

/* keeps the callee symbols in the goto binary even if an edit of pika stops calling one of them (the driver names them in
 * --replace-call-with-contract); never called */
void vx_keep_callee_symbols(struct stop_state *s, struct stop_callback_base *cb)
{
  lock(s); unlock(s); (void) lock_and_request_stop(s); (void) lock_if_not_stopped(s, cb);
}

/* ---- list primitives (lifted bodies; their own contracts are units list.*) ---- */
static void add_this_callback_body(struct stop_callback_base *self, struct stop_callback_base **callbacks)
//@LIFT add_this
static bool remove_this_callback_body(struct stop_callback_base *self)
//@LIFT remove_this
/* lock discipline: the list is touched only under the lock */
static void add_this_callback(struct stop_callback_base *self, struct stop_callback_base **callbacks)
{
  VX_ASSERT(g_held, "lock discipline: callback list modified without holding the state lock");
  add_this_callback_body(self, callbacks);
}
static bool remove_this_callback(struct stop_callback_base *self)
{
  VX_ASSERT(g_held || g_seq, "lock discipline: callback list modified without holding the state lock");
  return remove_this_callback_body(self);
}

/* ---- universe ---- */
static struct stop_state g_S;
static struct stop_callback_base g_V, g_A, g_B;
static struct cb_ghost {
  long sig_tid;               /* thread id of the signaller (meaningful if sig_exists) */
  bool sig_exists;            /* some request_stop call has won */
  bool i_am_signaller;        /* the call under verification runs on the signalling thread */
  bool waited;                /* the call spun at least once waiting for the finished flag */
  bool v_linked_at_acquire, v_linked_at_release, rel_stop;
  bool v_listed_at_win;       /* V was in the list when this call won the stop request */
  bool v_self_removed;        /* V destroyed itself from inside its own callback */
  int releases;
  bool won; uint64_t win_old, win_new;
  bool final_empty;           /* the list was empty at the last release */
  bool is_removed_flag;       /* the signaller's local `is_removed` while the victim's callback runs (remove_callback unit) */
  uint8_t v_class;            /* remove_callback: how the victim got where it is (see harness) */
} cbg;
#define g_sig_tid cbg.sig_tid
#define g_sig_exists cbg.sig_exists
#define g_i_am_signaller cbg.i_am_signaller
#define g_waited cbg.waited
#define g_v_linked_at_acquire cbg.v_linked_at_acquire
#define g_v_linked_at_release cbg.v_linked_at_release
#define g_rel_stop cbg.rel_stop
#define g_v_listed_at_win cbg.v_listed_at_win
#define g_v_self_removed cbg.v_self_removed
#define g_releases cbg.releases
#define g_won cbg.won
#define g_win_old cbg.win_old
#define g_win_new cbg.win_new
#define g_final_empty cbg.final_empty
#define g_is_removed_flag cbg.is_removed_flag
#define g_v_class cbg.v_class
#define CLASS_LINKED 0            /* registered, still in the list */
#define CLASS_DEQUEUED 1          /* registered, dequeued by the signaller (executing or executed via the list) */
#define CLASS_INLINE 2            /* add_callback executed it inline (stop had been requested), never linked */
#define CLASS_UNREGISTERED 3      /* add_callback refused (stop impossible), never linked, never executed */

#define LISTED(n) ((n)->prev_ != NULL && !(n)->g_dead)
#define FRESH(n) ((n)->g_exec == 0 && !(n)->callback_finished_executing_ && !(n)->g_dead && (n)->is_removed_ == NULL)
#define HEAD_WF(s) ((s)->callbacks_ == NULL || (s)->callbacks_->prev_ == &(s)->callbacks_)
#define IN_POOL(p) ((p) == &g_V || (p) == &g_A || (p) == &g_B)
/* window: first and second node are pool nodes, locally well linked, not yet executed */
#define WINDOW_OK(s) ((s)->callbacks_ == NULL || (IN_POOL((s)->callbacks_) && (s)->callbacks_->prev_ == &(s)->callbacks_ && FRESH((s)->callbacks_) && \
    ((s)->callbacks_->next_ == NULL || (IN_POOL((s)->callbacks_->next_) && (s)->callbacks_->next_ != (s)->callbacks_ && \
       (s)->callbacks_->next_->prev_ == &(s)->callbacks_->next_ && FRESH((s)->callbacks_->next_)))))
/* V_REACH in window terms: V first, or second, or somewhere behind the second node */
#define V_REACH(s) (!LISTED(&g_V) || ((s)->callbacks_ != NULL && ((s)->callbacks_ == &g_V || ((s)->callbacks_->next_ != NULL))))
#define V_ONCE (g_V.g_exec >= 0 && g_V.g_exec <= 1 && (g_V.g_exec == 0 || g_V.prev_ == NULL))
/* ... and if it is neither first nor second, the second node has a successor (window consequence of reachability, depth 2) */
#define V_REACH2(s) (!LISTED(&g_V) || (s)->callbacks_ == NULL || (s)->callbacks_ == &g_V || (s)->callbacks_->next_ == NULL || \
                     (s)->callbacks_->next_ == &g_V || (s)->callbacks_->next_->next_ != NULL)
/* a node that is not listed is not in the window */
#define V_ABSENT(s) (LISTED(&g_V) || ((s)->callbacks_ != &g_V && ((s)->callbacks_ == NULL || (s)->callbacks_->next_ != &g_V)))

static struct stop_callback_base *pick_node(void)
{
  uint8_t c = nondet_u8();
  return c == 0 ? NULL : c == 1 ? &g_V : c == 2 ? &g_A : &g_B;
}
static struct stop_callback_base **pick_cell(void)
{
  uint8_t c = nondet_u8();
  return c == 0 ? NULL : c == 1 ? &g_S.callbacks_ : c == 2 ? &g_A.next_ : c == 3 ? &g_B.next_ : &g_V.next_;
}
static void havoc_anon(struct stop_callback_base *n)
{
  n->next_ = pick_node(); n->prev_ = pick_cell(); n->is_removed_ = NULL;
  n->callback_finished_executing_ = false; n->g_exec = 0; n->g_dead = false;
}

/* TRUSTED environment step at lock acquisition: other threads (registrations, deregistrations) have rearranged the list
 * within the monitor invariant.  The victim's execution count is never changed by others while it is listed; its
 * destructor may have unlinked it (then it is dead and the signaller must never touch it again). */
static void mon_havoc_list(struct stop_state *s)
{
  bool was_listed = LISTED(&g_V);
  s->callbacks_ = pick_node();
  havoc_anon(&g_A);
  havoc_anon(&g_B);
  if (was_listed)
  {
    g_V.next_ = pick_node();
    g_V.prev_ = pick_cell();
    if (nondet_bool()) g_V.g_dead = true;   /* ~stop_callback found it linked and removed it */
    VX_ASSUME(g_V.prev_ != NULL);           /* still linked, unless destroyed */
    VX_ASSUME(g_V.next_ == NULL || (g_V.next_ != &g_V && g_V.next_->prev_ == &g_V.next_ && FRESH(g_V.next_)));
  }
  /* monitor invariant (every other release point asserts it) */
  VX_ASSUME(WINDOW_OK(s) && V_REACH(s) && V_REACH2(s) && V_ABSENT(s));
}
/* TRUSTED: pointer-level view of the list at the head of one iteration of request_stop's loop.  The signaller has held the
 * lock without interruption since its last acquisition, where the monitor invariant held, and has not touched the list since
 * (whole-function unit: nothing but signalling_thread_ is written between acquisition and loop head); so the window can be
 * re-materialised from the invariant.  Emptiness of the list and the victim's membership are kept. */
static void mon_materialise(struct stop_state *s)
{
  bool nonempty = s->callbacks_ != NULL, listed = LISTED(&g_V);
  s->callbacks_ = pick_node();
  havoc_anon(&g_A);
  havoc_anon(&g_B);
  if (listed)
  {
    g_V.next_ = pick_node();
    g_V.prev_ = pick_cell();
    VX_ASSUME(g_V.prev_ != NULL);
    VX_ASSUME(g_V.next_ == NULL || (g_V.next_ != &g_V && g_V.next_->prev_ == &g_V.next_ && FRESH(g_V.next_)));
  }
  VX_ASSUME((s->callbacks_ != NULL) == nonempty);
  VX_ASSUME(WINDOW_OK(s) && V_REACH(s) && V_REACH2(s) && V_ABSENT(s));   /* monitor invariant */
}
/* bounded stand-in only: ~stop_callback of the victim runs between two critical sections of the signaller (the lifted
 * remove_this_callback does the unlinking) */
static void mon_env_removes_victim(struct stop_state *s)
{
  (void) s;
  if (LISTED(&g_V) && nondet_bool()) { bool r = remove_this_callback(&g_V); VX_ASSERT(r, "listed victim is linked"); g_V.g_dead = true; }
}
/* per unit: what happens at lock acquisition / what is asserted (besides mon_release_common) at release */
#if defined(U_ADD_CALLBACK)
#define MON_AT_ACQUIRE(s)
#define MON_AT_RELEASE(s) VX_ASSERT(V_REACH(s), "monitor invariant at release: a listed victim is reachable from the head")
#elif defined(U_REMOVE_CALLBACK)
/* the state at entry is already arbitrary (harness), nothing is read before the lock is taken */
#define MON_AT_ACQUIRE(s) do { g_v_linked_at_acquire = LISTED(&g_V); } while (0)
#define MON_AT_RELEASE(s) VX_ASSERT(!g_v_linked_at_acquire || (s)->callbacks_ != &g_V, "a deregistered callback is no longer the head of the list")
#elif defined(U_BOUNDED)
/* bounded stand-in: a concrete list of <= 3 nodes; the only environment step is the victim's deregistration */
#define MON_AT_ACQUIRE(s) mon_env_removes_victim(s)
#define MON_AT_RELEASE(s) VX_ASSERT(V_REACH(s), "monitor invariant at release: a listed victim is reachable from the head")
#else
#define MON_AT_ACQUIRE(s) mon_havoc_list(s)
#define MON_AT_RELEASE(s) VX_ASSERT(V_REACH(s), "monitor invariant at release: a listed victim is reachable from the head")
#endif
static void mon_release_common(struct stop_state *s)
{
  VX_ASSERT(g_held, "lock discipline: unlock without holding the lock");
  VX_ASSERT(HEAD_WF(s), "monitor invariant at release: head cell and first node are linked to each other");
  VX_ASSERT(s->callbacks_ == NULL || FRESH(s->callbacks_), "monitor invariant at release: a listed callback has not been executed");
  VX_ASSERT(V_ONCE, "monitor invariant at release: victim executed at most once, and only after being dequeued");
  g_v_linked_at_release = LISTED(&g_V);
  g_final_empty = (s->callbacks_ == NULL);
  if (g_releases < 2) g_releases++;
}
/* glue between the lifted text and the S-contracts: one ghost `lin` per word operation */
static void mon_lock(struct stop_state *s)
{
  VX_ASSERT(!g_held, "lock discipline: lock taken twice by the same agent");
  lin = false;
  lock(s);
  MON_AT_ACQUIRE(s);
}
static void mon_unlock(struct stop_state *s)
{
  mon_release_common(s);
  MON_AT_RELEASE(s);
  lin = false;
  unlock(s);
  g_rel_stop = W_STOP(lin_old) != 0;   /* was stop requested at the moment the lock was released? */
}
static bool t_lock_if_not_stopped(struct stop_state *s, struct stop_callback_base *cb)
{
  lin = false;
  return lock_if_not_stopped(s, cb);
}
static bool t_lock_and_request_stop(struct stop_state *s)
{
  lin = false;
  bool r = lock_and_request_stop(s);
  g_won = r;
  if (r) { g_win_old = lin_old; g_win_new = lin_new; g_sig_exists = true; g_i_am_signaller = true; g_v_listed_at_win = LISTED(&g_V); }
  return r;
}
static long get_self_id(void) { return g_self_id; }

/* user code of a callback running on the signalling thread: it may destroy its own stop_callback object, which (contract of
 * remove_callback on the signalling thread, unit cb.remove_callback) sets *is_removed_ and never waits */
static void cb_user_code(struct stop_callback_base *cb)
{
  if (cb->is_removed_ != NULL && nondet_bool())
  {
    *cb->is_removed_ = true;
    cb->g_dead = true;
    if (cb == &g_V) g_v_self_removed = true;
  }
}
/* cb->callback_finished_executing_.load(): the signaller publishes the flag after running the callback */
static bool flag_load(struct stop_callback_base *cb)
{
  if (cb == &g_V && g_v_class == CLASS_DEQUEUED && !g_i_am_signaller && !cb->callback_finished_executing_ && nondet_bool())
  {
    cb->g_exec = 1;
    cb->callback_finished_executing_ = true;
  }
  return cb->callback_finished_executing_;
}
/* one round of pika::util::yield_while */
static void yield_spin(void)
{
  /* "caller may block" precondition (cf. cv_wait in C08): spinning for the finished flag is legitimate only while a
   * signaller on ANOTHER thread has dequeued the callback and is executing / about to execute it */
  VX_ASSERT(g_v_class == CLASS_DEQUEUED && g_sig_exists && !g_i_am_signaller,
            "remove_callback spins for the finished flag of a callback that nobody is executing or will ever execute");
  VX_ASSERT(!g_held, "remove_callback spins while holding the lock");
  g_waited = true;
}

/* ---- RAII helpers of stop_token.cpp / unlock_guard.hpp (lifted) ---- */
struct scoped_lock { struct stop_state *state_; bool has_lock_; };
struct unlock_guard { struct stop_state *m_; };
#ifdef U_ADD_CALLBACK
static void scoped_lock_if_not_stopped_ctor(struct scoped_lock *self, struct stop_state *state, struct stop_callback_base *cb)
//@LIFT slins_ctor
static void scoped_lock_if_not_stopped_dtor(struct scoped_lock *self)
//@LIFT slins_dtor
static bool scoped_lock_if_not_stopped_bool(const struct scoped_lock *self)
//@LIFT slins_bool
#endif
#if defined(U_REQUEST_STOP) || defined(U_STEP)
static void scoped_lock_and_request_stop_ctor(struct scoped_lock *self, struct stop_state *state)
//@LIFT slars_ctor
static void scoped_lock_and_request_stop_dtor(struct scoped_lock *self)
//@LIFT slars_dtor
static bool scoped_lock_and_request_stop_bool(const struct scoped_lock *self)
//@LIFT slars_bool
static void unlock_guard_ctor(struct unlock_guard *self, struct stop_state *m)
//@LIFT ug_ctor
static void unlock_guard_dtor(struct unlock_guard *self)
//@LIFT ug_dtor
#endif

#define NODE_FRAME(n) n.next_, n.prev_, n.is_removed_, n.m
#define CB_FRAME g_S.state_, g_S.callbacks_, g_S.signalling_thread_, NODE_FRAME(g_V), NODE_FRAME(g_A), NODE_FRAME(g_B), vxg, cbg
#define CB_PRE(self) ((self) == &g_S && S_PRE(self) && !g_held && g_mytok == 0 && g_mysrc <= 1 && g_releases == 0 && !g_waited)

#ifdef U_ADD_CALLBACK
//@FUNC
bool add_callback(struct stop_state *self, struct stop_callback_base *cb)
__CPROVER_requires(CB_PRE(self) && cb == &g_V && FRESH(cb) && cb->prev_ == NULL && WINDOW_OK(self) && V_ABSENT(self))
/* a new callback object; any list */
/* true: registered -- at the front of the list, not executed, and the lock was released while stop was still not requested,
 * so whoever wins request_stop later finds it in the list */
__CPROVER_ensures(__CPROVER_return_value ==> (self->callbacks_ == cb && cb->prev_ == &self->callbacks_ && cb->next_ == __CPROVER_old(self->callbacks_) &&
     (cb->next_ == NULL || cb->next_->prev_ == &cb->next_) && cb->g_exec == 0 && !cb->callback_finished_executing_))
__CPROVER_ensures(__CPROVER_return_value ==> (g_releases == 1 && g_v_linked_at_release && !g_rel_stop))
/* false: not registered and the list untouched; stop already requested => ran inline exactly once, flag published;
 * stop impossible => nothing happened (L9: inline execution and list membership exclude each other) */
__CPROVER_ensures(!__CPROVER_return_value ==> (cb->prev_ == NULL && self->callbacks_ == __CPROVER_old(self->callbacks_) && g_releases == 0 &&
     ((W_STOP(g_last_read) && cb->g_exec == 1 && cb->callback_finished_executing_) ||
      (!W_STOP(g_last_read) && W_SRC(g_last_read) == 0 && cb->g_exec == 0 && !cb->callback_finished_executing_))))
__CPROVER_ensures(!g_held)
__CPROVER_assigns(CB_FRAME)
//@LIFT body
#endif

#ifdef U_REMOVE_CALLBACK
//@FUNC
void remove_callback(struct stop_state *self, struct stop_callback_base *cb)
__CPROVER_requires(CB_PRE(self) && cb == &g_V && !cb->g_dead && V_ONCE)
/* still linked => unlinked under the lock without ever having run; it can never run afterwards (nobody can reach it) */
__CPROVER_ensures(g_v_linked_at_acquire ==> (g_releases == 1 && !g_waited && cb->g_exec == 0 && self->callbacks_ != cb &&
     *__CPROVER_old(cb->prev_) == __CPROVER_old(cb->next_) && (__CPROVER_old(cb->next_) == NULL || __CPROVER_old(cb->next_)->prev_ == __CPROVER_old(cb->prev_))))
/* otherwise it returns only after the finished flag -- unless called on the signalling thread (from inside a callback) */
__CPROVER_ensures(!g_v_linked_at_acquire ==> (g_i_am_signaller || cb->callback_finished_executing_ || cb->g_exec == 0 && g_v_class == CLASS_UNREGISTERED))
/* on the signalling thread, from inside the callback itself: request_stop is told not to touch the object any more */
__CPROVER_ensures((g_i_am_signaller && cb->g_exec == 1 && !cb->callback_finished_executing_) ==> g_is_removed_flag)
__CPROVER_ensures(!g_held)
__CPROVER_assigns(CB_FRAME)
//@LIFT body
#endif

/* what the signaller knows at the head of every iteration of its loop, in terms that need no pointer dereference
 * (scalars and pointer VALUES only): lock held by the winner; the victim ran at most once and only after being dequeued;
 * a listed victim is untouched and the list is then not empty; a victim that was listed at the time of the stop request
 * and is not listed any more either ran (flag published unless it destroyed itself) or was destroyed without running */
#define SINV(self) (g_held && g_won && g_i_am_signaller && g_sig_exists && g_mytok == 0 && g_mysrc == 1 && !g_seq && !g_waited && \
   W_INV((self)->state_) && W_LOCK((self)->state_) && W_SRC((self)->state_) >= 1 && (self)->signalling_thread_ == g_self_id && V_ONCE && \
   g_releases >= 0 && g_releases <= 2 && \
   (!LISTED(&g_V) || (FRESH(&g_V) && (self)->callbacks_ != NULL)) && \
   (g_v_listed_at_win || (g_V.g_exec == 0 && !LISTED(&g_V) && !g_v_self_removed)) && \
   (!(g_v_listed_at_win && !LISTED(&g_V)) || (g_V.g_exec == 1 && g_V.prev_ == NULL && (g_V.callback_finished_executing_ || g_v_self_removed)) || (g_V.g_exec == 0 && g_V.g_dead)) && \
   (g_v_self_removed ? (g_V.g_exec == 1 && g_V.g_dead && !g_V.callback_finished_executing_) : (g_V.g_exec == 0 || g_V.callback_finished_executing_)))
#define CB_FRAME_W g_S, g_V, g_A, g_B, vxg, cbg

#if defined(U_REQUEST_STOP) || defined(U_STEP)
#ifdef U_STEP
//@FUNC
#endif
void drain_step(struct stop_state *self)
__CPROVER_requires(self == &g_S && SINV(self) && self->callbacks_ != NULL)
/* one iteration: dequeue the head under the lock, run it outside the lock exactly once (stub obligations), publish the
 * finished flag unless it destroyed itself, re-acquire: the loop invariant is re-established */
__CPROVER_ensures(SINV(self))
__CPROVER_ensures(g_win_old == __CPROVER_old(g_win_old) && g_win_new == __CPROVER_old(g_win_new) && g_v_listed_at_win == __CPROVER_old(g_v_listed_at_win))
__CPROVER_assigns(CB_FRAME_W)
#ifdef U_STEP
{
  mon_materialise(self);
//@LIFT step
}
#else
;
#endif
#endif

#if defined(U_REQUEST_STOP) && !defined(U_STEP)
//@FUNC
bool request_stop(struct stop_state *self)
__CPROVER_requires(CB_PRE(self) && g_mysrc == 1 && V_ONCE && !g_V.g_dead && !g_won && !g_sig_exists && !g_i_am_signaller && !g_v_self_removed)
__CPROVER_requires(LISTED(&g_V) ? (FRESH(&g_V) && self->callbacks_ != NULL) : g_V.prev_ == NULL)
/* true <=> ITS step turned the stop bit 0 -> 1 */
__CPROVER_ensures((__CPROVER_return_value ? g_won : !g_won) && (g_won ==> (!W_STOP(g_win_old) && W_STOP(g_win_new))))
/* the winner drains the list: at its last release the list is empty, the signalling thread is recorded */
__CPROVER_ensures(__CPROVER_return_value ==> (g_final_empty && self->signalling_thread_ == g_self_id && g_releases >= 1))
/* victim: in the list when the stop request was made => executed exactly once (outside the lock: stub obligation), unless its
 * destructor unlinked it first; the finished flag is published unless it destroyed itself from inside the callback */
__CPROVER_ensures((__CPROVER_return_value && g_v_listed_at_win) ==> ((g_V.g_exec == 1 && g_V.prev_ == NULL && (g_V.callback_finished_executing_ || g_v_self_removed)) || (g_V.g_exec == 0 && g_V.g_dead)))
__CPROVER_ensures(g_V.g_exec <= 1 && (g_v_self_removed || g_V.g_exec == 0 || g_V.callback_finished_executing_) && (g_v_self_removed ==> !g_V.callback_finished_executing_))
/* loser: touches nothing */
__CPROVER_ensures(!__CPROVER_return_value ==> (g_releases == 0 && self->callbacks_ == __CPROVER_old(self->callbacks_) && g_V.g_exec == __CPROVER_old(g_V.g_exec) && W_STOP(g_last_read)))
__CPROVER_ensures(!g_held)
__CPROVER_assigns(CB_FRAME_W)
//@LIFT body
#endif

void harness(void)
{
  g_S.state_ = nondet_u64();
  g_S.signalling_thread_ = 0;
  lin = false; g_seq = false; g_interfered = false; g_held = false; g_mytok = 0; g_mysrc = 0; g_deleted = 0;
  g_releases = 0; g_waited = false; g_won = false; g_sig_exists = false; g_i_am_signaller = false; g_v_self_removed = false;
  g_self_id = nondet_long();
  /* an arbitrary list seen through the window */
  g_S.callbacks_ = pick_node();
  havoc_anon(&g_A);
  havoc_anon(&g_B);
  havoc_anon(&g_V);
#ifdef U_ADD_CALLBACK
  g_V.prev_ = NULL; g_V.next_ = pick_node();   /* a fresh object: links indeterminate */
  struct stop_callback_base *h0 = g_S.callbacks_;
  bool r = add_callback(&g_S, &g_V);
  if (r && h0 == NULL) VX_REACH("registered_first");
  if (r && h0 != NULL) VX_REACH("registered_before_others");
  if (!r && g_V.g_exec == 1) VX_REACH("executed_inline");
  if (!r && g_V.g_exec == 0) VX_REACH("stop_impossible");
#endif
#ifdef U_REMOVE_CALLBACK
  /* how the victim got here: the four outcomes of add_callback followed by arbitrary progress of a signaller */
  g_v_class = nondet_u8();
  g_sig_exists = nondet_bool();
  g_i_am_signaller = nondet_bool();
  g_sig_tid = nondet_long();
  g_is_removed_flag = false;
  g_V.g_exec = nondet_bool() ? 1 : 0;
  g_V.callback_finished_executing_ = nondet_bool();
  g_V.is_removed_ = nondet_bool() ? &g_is_removed_flag : NULL;
  if (g_sig_exists) g_S.signalling_thread_ = g_sig_tid;
  bool ok = g_v_class <= CLASS_UNREGISTERED && (!g_i_am_signaller || g_sig_exists);
  /* the word agrees with the history: a signaller exists / the callback ran => stop requested; refused registration =>
   * stop not requested and no source left */
  ok = ok && (!g_sig_exists || W_STOP(g_S.state_)) && (g_sig_exists || !W_STOP(g_S.state_));
  if (g_v_class == CLASS_DEQUEUED || g_v_class == CLASS_INLINE) ok = ok && W_STOP(g_S.state_);
  if (g_v_class == CLASS_UNREGISTERED) ok = ok && !W_STOP(g_S.state_) && W_SRC(g_S.state_) == 0;
  /* thread identities: the signalling thread sees its own id; other pika threads have another, non-zero id; plain OS
   * threads all report invalid_thread_id (0) */
  if (g_i_am_signaller) ok = ok && g_self_id == g_sig_tid;
  else ok = ok && (!g_sig_exists || g_self_id != g_sig_tid || g_self_id == 0);
#ifdef KF_PIKA_THREADS_ONLY
  ok = ok && !(g_sig_exists && !g_i_am_signaller && g_self_id == 0 && g_sig_tid == 0);   /* exclude: signaller and caller are two different plain OS threads */
#endif
#ifdef KF_REGISTERED_ONLY
  ok = ok && g_v_class != CLASS_UNREGISTERED;                                               /* exclude: callback that add_callback refused (stop impossible) */
#endif
  if (g_v_class == CLASS_LINKED)
    ok = ok && LISTED(&g_V) && FRESH(&g_V) && *g_V.prev_ == &g_V && g_V.prev_ != &g_V.next_ &&
         (g_V.next_ == NULL || (g_V.next_ != &g_V && g_V.next_->prev_ == &g_V.next_)) && HEAD_WF(&g_S) &&
         (g_S.callbacks_ == NULL || FRESH(g_S.callbacks_)) && g_S.callbacks_ != NULL;
  else
  {
    ok = ok && g_V.prev_ == NULL && g_S.callbacks_ != &g_V && g_A.next_ != &g_V && g_B.next_ != &g_V && HEAD_WF(&g_S) &&
         (g_S.callbacks_ == NULL || FRESH(g_S.callbacks_));
    if (g_v_class == CLASS_DEQUEUED)
    {
      ok = ok && g_sig_exists && (!g_V.callback_finished_executing_ || g_V.g_exec == 1);
      /* on the signalling thread we are inside a callback: V itself (running: is_removed_ set, flag clear) or V completed earlier */
      if (g_i_am_signaller) ok = ok && g_V.g_exec == 1 && (g_V.callback_finished_executing_ ? g_V.is_removed_ == NULL : g_V.is_removed_ != NULL);
      else ok = ok && (g_V.g_exec == 1 || g_V.is_removed_ == NULL) && (!g_V.callback_finished_executing_ || g_V.is_removed_ == NULL);
    }
    else if (g_v_class == CLASS_INLINE)
      ok = ok && g_V.g_exec == 1 && g_V.callback_finished_executing_ && g_V.is_removed_ == NULL;
    else
      ok = ok && g_V.g_exec == 0 && !g_V.callback_finished_executing_ && g_V.is_removed_ == NULL && !g_sig_exists && !g_i_am_signaller;
  }
  if (!ok) return;
  remove_callback(&g_S, &g_V);
  if (g_v_class == CLASS_LINKED) VX_REACH("unlinked");
  if (g_v_class == CLASS_DEQUEUED && !g_i_am_signaller && g_waited) VX_REACH("waited_for_other_thread");
  if (g_v_class == CLASS_DEQUEUED && !g_i_am_signaller && !g_waited) VX_REACH("already_finished");
  if (g_v_class == CLASS_DEQUEUED && g_i_am_signaller && g_is_removed_flag) VX_REACH("self_removal_inside_callback");
  if (g_v_class == CLASS_DEQUEUED && g_i_am_signaller && !g_is_removed_flag) VX_REACH("removed_by_later_callback");
  if (g_v_class == CLASS_INLINE) VX_REACH("inline_executed");
#ifndef KF_REGISTERED_ONLY
  if (g_v_class == CLASS_UNREGISTERED) VX_REACH("never_registered");
#endif
#ifndef KF_PIKA_THREADS_ONLY
  if (g_v_class == CLASS_DEQUEUED && !g_i_am_signaller && g_self_id == 0 && g_sig_tid == 0) VX_REACH("two_os_threads");
#endif
#endif
#ifdef U_STEP
  /* the signaller at the head of an iteration: any state allowed by SINV (filtered by the precondition) */
  g_held = true; g_won = true; g_i_am_signaller = true; g_sig_exists = true; g_mysrc = 1;
  g_S.signalling_thread_ = g_self_id;
  g_win_old = nondet_u64(); g_win_new = nondet_u64();
  g_v_listed_at_win = nondet_bool(); g_v_self_removed = nondet_bool();
  g_V.g_exec = nondet_bool() ? 1 : 0; g_V.callback_finished_executing_ = nondet_bool(); g_V.g_dead = nondet_bool();
  g_V.is_removed_ = nondet_bool() ? &g_is_removed_flag : NULL;
  bool listed0 = LISTED(&g_V);
  int exec0 = g_V.g_exec;
  drain_step(&g_S);
  VX_REACH("stepped");
  if (listed0 && exec0 == 0 && g_V.g_exec == 1 && g_V.callback_finished_executing_) VX_REACH("victim_was_head_and_ran");
  if (listed0 && g_V.g_exec == 1 && g_v_self_removed) VX_REACH("victim_removed_itself");
  if (listed0 && LISTED(&g_V)) VX_REACH("victim_still_listed");
  if (listed0 && g_V.g_exec == 0 && g_V.g_dead) VX_REACH("victim_deregistered_meanwhile");
  if (!listed0) VX_REACH("victim_not_listed");
  if (g_S.callbacks_ == NULL) VX_REACH("list_now_empty");
#endif
#if defined(U_REQUEST_STOP) && !defined(U_STEP)
  bool listed0 = nondet_bool();
  if (!listed0) { g_V.prev_ = NULL; }
  g_mysrc = 1;   /* the caller is a stop_source */
#ifdef U_BOUNDED
  {
    /* a concrete, well-formed list of n <= 3 nodes in any order */
    struct stop_callback_base *ord[3];
    uint8_t p = nondet_u8(), n = nondet_u8();
    if (p > 5 || n > 3) return;
    ord[0] = p < 2 ? &g_V : p < 4 ? &g_A : &g_B;
    ord[1] = (p == 2 || p == 4) ? &g_V : (p == 0 || p == 5) ? &g_A : &g_B;
    ord[2] = (p == 3 || p == 5) ? &g_V : (p == 1 || p == 4) ? &g_A : &g_B;
    g_V.prev_ = NULL; g_A.prev_ = NULL; g_B.prev_ = NULL; g_V.next_ = NULL; g_A.next_ = NULL; g_B.next_ = NULL;
    g_S.callbacks_ = n > 0 ? ord[0] : NULL;
    if (n > 0) { ord[0]->prev_ = &g_S.callbacks_; ord[0]->next_ = n > 1 ? ord[1] : NULL; }
    if (n > 1) { ord[1]->prev_ = &ord[0]->next_; ord[1]->next_ = n > 2 ? ord[2] : NULL; }
    if (n > 2) { ord[2]->prev_ = &ord[1]->next_; ord[2]->next_ = NULL; }
    listed0 = LISTED(&g_V);
  }
#endif
#ifdef U_BOUNDED
  g_seq = true;   /* no interference on the word: the stand-in runs the real lock/unlock/lock_and_request_stop bodies */
  struct stop_callback_base *head0 = g_S.callbacks_;
  bool stop0 = W_STOP(g_S.state_) != 0;
  if (W_LOCK(g_S.state_) || !W_INV(g_S.state_) || W_SRC(g_S.state_) < 1) return;
#endif
  bool r = request_stop(&g_S);
#ifdef U_BOUNDED
  /* the postconditions of the contract, asserted directly (no contract instrumentation in the stand-in) */
  VX_ASSERT(r == !stop0, "bounded: returns true exactly if the stop bit was clear (sequential run)");
  VX_ASSERT(!r || (g_won && !W_STOP(g_win_old) && W_STOP(g_win_new) && W_STOP(g_S.state_)), "bounded: the winner's step set the stop bit");
  VX_ASSERT(!r || (g_S.callbacks_ == NULL && g_final_empty && g_S.signalling_thread_ == g_self_id), "bounded: the winner drained the list");
  VX_ASSERT(!(r && listed0) || (g_V.g_exec == 1 && g_V.prev_ == NULL && (g_V.callback_finished_executing_ || g_v_self_removed)) || (g_V.g_exec == 0 && g_V.g_dead), "bounded: listed victim ran exactly once or was deregistered first");
  VX_ASSERT(r || (g_S.callbacks_ == head0 && g_V.g_exec == 0 && g_releases == 0), "bounded: the loser touches nothing");
  VX_ASSERT(!g_held && !W_LOCK(g_S.state_), "bounded: lock released");
#endif
  if (!r) VX_REACH("lost");
  if (r && !listed0) VX_REACH("won_victim_not_listed");
  if (r && listed0 && g_V.g_exec == 1 && g_V.callback_finished_executing_) VX_REACH("victim_executed_once");
  if (r && listed0 && g_v_self_removed) VX_REACH("victim_removed_itself");
  if (r && listed0 && g_V.g_exec == 0) VX_REACH("victim_deregistered_first");
#endif
}
