import re

from vx import lift as L
from vx.lift import Lift, Sub, Call, Members, Guard, DropStmt, Rule, LiftError
from vx.run import Unit

HPP = "libs/pika/synchronization/include/pika/synchronization/stop_token.hpp"
CPP = "libs/pika/synchronization/src/stop_token.cpp"


# ---------------------------------------------------------------------------------------------------------------
# helpers local to this spec (the framework lacks them; reported)


class StripComments(Rule):
    """vx.lift.strip_comments treats the C++14 digit separator in `0x7fff'ffffull` (stop_token.hpp:82) as the start
    of a character literal and therefore leaves every comment of the rest of the header in place.  Lifts from the
    header first drop digit separators and then strip the comments of the slice again."""
    n = None

    def apply(self, text):
        text = re.sub(r"(?<=[0-9a-fA-F])'(?=[0-9a-fA-F])", "", text)
        return L.strip_comments(text)


class ConstDefs(Rule):
    """`static constexpr std::uint64_t NAME = EXPR;` -> `#define NAME ((uint64_t)(EXPR))`, one per line.
    Purely syntactic (the expressions are copied); anything else left in the fragment is an extraction failure."""

    def __init__(self, n="+"):
        self.n = n

    def apply(self, text):
        out = []
        k = 0
        rest = text
        for m in re.finditer(r"static\s+constexpr\s+std::uint64_t\s+(\w+)\s*=\s*([^;]+);", text):
            k += 1
            out.append("#define %s ((uint64_t)(%s))" % (m.group(1), " ".join(m.group(2).split())))
            rest = rest.replace(m.group(0), "", 1)
        self.check(k, "ConstDefs")
        if rest.strip():
            raise LiftError("ConstDefs: unexpected text in the constants fragment: %r" % rest.strip()[:80])
        return "\n".join(out) + "\n"


def clean_source(relpath):
    """whole file, digit separators removed (line structure kept), comments stripped"""
    import os
    p = os.path.join(L.REPO, relpath)
    if not os.path.exists(p):
        raise LiftError("source file missing: %s" % relpath)
    raw = open(p, encoding="utf-8", errors="replace").read()
    raw = re.sub(r"(?<=[0-9a-fA-F])'(?=[0-9a-fA-F])", "", raw)
    return L.strip_comments(raw)


def class_span(src, cls):
    ms = list(re.finditer(r"\b(?:class|struct)\s+(?:\[\[\w+\]\]\s*)?%s\b[^;{]*\{" % re.escape(cls), src))
    if len(ms) != 1:
        raise LiftError("class %s: %d definitions found" % (cls, len(ms)))
    op = ms[0].end() - 1
    return op, L.match_close(src, op, "{", "}")


def data_members(src, cls):
    """[(type, name, default-member-initialiser or None)] of the non-static data members, in declaration order"""
    op, cl = class_span(src, cls)
    body = src[op + 1:cl]
    chunks, i, start, n = [], 0, 0, len(body)
    while i < n:
        c = body[i]
        if c == "(":
            i = L.match_close(body, i) + 1
            continue
        if c == "{":
            j = L.match_close(body, i, "{", "}")
            k = j + 1
            while k < n and body[k].isspace():
                k += 1
            if k < n and body[k] == ";":
                i = j + 1
                continue
            chunks.append(body[start:j + 1])
            start = i = j + 1
            continue
        if c == ";":
            chunks.append(body[start:i])
            start = i + 1
        i += 1
    out = []
    for ch in chunks:
        ch = re.sub(r"^\s*#.*$", "", ch, flags=re.M)
        ch = re.sub(r"\b(public|private|protected)\s*:", "", ch).strip()
        if not ch or "(" in ch or re.match(r"(friend|using|static|template|typedef|enum|struct|class)\b", ch):
            continue
        m = re.match(r"(.+?[\s*&>])(\w+)\s*(?:=\s*(.+)|\{(.*)\})?$", ch, re.S)
        if not m:
            raise LiftError("class %s: cannot classify member declaration %r" % (cls, ch[:60]))
        init = m.group(3) if m.group(3) is not None else m.group(4)
        out.append((" ".join(m.group(1).split()), m.group(2), init.strip() if init is not None else None))
    return out


class MemberLift(Lift):
    """A special member function (or ordinary member) of class `cls`, located inside the class definition.
      * explicit definition: the body is sliced as usual; for constructors the mem-initialiser list becomes leading
        `VX_MEMINIT(member, args);` statements (members not mentioned get `VX_MEMINIT(member[, default-member-init]);`,
        declaration order), for destructors the implicit member destruction becomes trailing `VX_MEMDTOR(member);`
        statements (reverse order);
      * `= default`: the member-wise definition the language prescribes is generated from the class's data-member
        list, which is itself read from the class definition (census), in C++ spelling:
            ctor  VX_MEMINIT(m[, nsdmi]);            copy_ctor  VX_MEMINIT(m, rhs.m);   move_ctor VX_MEMINIT(m, std::move(rhs.m));
            copy_assign  m = rhs.m; return *this;   move_assign m = std::move(rhs.m); return *this;   dtor VX_MEMDTOR(m);
    The unit rules then translate that text exactly like sliced text.  The (only) parameter is renamed to `rhs`."""

    def __init__(self, src, cls, head, kind, rules=(), loops=None, post=(), expect_members=None, rename_param=True):
        Lift.__init__(self, src, head, rules=rules, loops=loops, post=post)
        self.cls, self.kind, self.expect_members, self.rename_param = cls, kind, expect_members, rename_param

    def run(self):
        src = clean_source(self.src)
        op, cl = class_span(src, self.cls)
        members = data_members(src, self.cls)
        if self.expect_members is not None and [m[1] for m in members] != list(self.expect_members):
            raise LiftError("member census of %s: found %r, the C model has %r" % (self.cls, [m[1] for m in members], self.expect_members))
        ms = [m for m in re.finditer(self.locate, src, re.S) if op < m.start() < cl]
        if len(ms) != 1:
            raise LiftError("locator /%s/ matched %d times inside class %s" % (self.locate, len(ms), self.cls))
        m = ms[0]
        line = src.count("\n", 0, m.start()) + 1
        # parameter list = last parenthesised group of the match
        pop = src.rfind("(", m.start(), m.end())
        if pop < 0:
            raise LiftError("locator must include the parameter list")
        pcl = L.match_close(src, pop)
        params = src[pop + 1:pcl].strip()
        pname = None
        if params and params != "void" and "," not in params:
            pm = re.search(r"[\s&*>](\w+)$", params)
            if pm and pm.group(1) not in ("const", "nostopstate_t") and not re.fullmatch(r"\w+", params):
                pname = pm.group(1)
        i = pcl + 1
        tail = re.match(r"(?:\s|const\b|noexcept\b(?:\s*\([^()]*\))?)*", src[i:])
        i += tail.end()
        isctor = self.kind in ("ctor", "copy_ctor", "move_ctor")
        if re.match(r"=\s*default\s*;", src[i:]):
            raw = src[m.start():i + re.match(r"=\s*default\s*;", src[i:]).end()]
            k = self.kind
            if k == "ctor":
                st = ["VX_MEMINIT(%s%s);" % (n, ", " + d if d is not None else "") for (_, n, d) in members]
            elif k == "copy_ctor":
                st = ["VX_MEMINIT(%s, rhs.%s);" % (n, n) for (_, n, _) in members]
            elif k == "move_ctor":
                st = ["VX_MEMINIT(%s, std::move(rhs.%s));" % (n, n) for (_, n, _) in members]
            elif k == "copy_assign":
                st = ["%s = rhs.%s;" % (n, n) for (_, n, _) in members] + ["return *this;"]
            elif k == "move_assign":
                st = ["%s = std::move(rhs.%s);" % (n, n) for (_, n, _) in members] + ["return *this;"]
            elif k == "dtor":
                st = ["VX_MEMDTOR(%s);" % n for (_, n, _) in reversed(members)]
            else:
                raise LiftError("'= default' on a member of kind %s" % k)
            body = "{ " + " ".join(st) + " }"
        else:
            inits = []
            if isctor and src[i] == ":":
                j = i + 1
                while True:
                    mm = re.match(r"\s*(\w+)\s*([({])", src[j:])
                    if not mm:
                        raise LiftError("cannot parse mem-initialiser list")
                    o = j + mm.end() - 1
                    c = L.match_close(src, o, src[o], ")" if src[o] == "(" else "}")
                    inits.append((mm.group(1), src[o + 1:c].strip()))
                    j = c + 1
                    mm = re.match(r"\s*,", src[j:])
                    if not mm:
                        break
                    j += mm.end()
                i = j + re.match(r"\s*", src[j:]).end()
            if src[i] != "{":
                raise LiftError("no body after /%s/ (found %r)" % (self.locate, src[i:i + 20]))
            e = L.match_close(src, i, "{", "}")
            raw = src[m.start():e + 1]
            inner = src[i + 1:e]
            pre, postt = [], []
            if isctor:
                given = dict(inits)
                for nm in given:
                    if nm not in [x[1] for x in members]:
                        raise LiftError("mem-initialiser for unknown member %s" % nm)
                for (_, n, d) in members:
                    if n in given:
                        pre.append("VX_MEMINIT(%s%s);" % (n, ", " + given[n] if given[n] else ""))
                    else:
                        pre.append("VX_MEMINIT(%s%s);" % (n, ", " + d if d is not None else ""))
            if self.kind == "dtor":
                if re.search(r"\breturn\b", inner):
                    raise LiftError("destructor body with return: member destruction lowering not implemented")
                postt = ["VX_MEMDTOR(%s);" % n for (_, n, _) in reversed(members)]
            body = "{ " + " ".join(pre) + inner + " ".join(postt) + " }"
            if pname and pname != "rhs" and self.rename_param:
                body = re.sub(r"\b%s\b" % re.escape(pname), "rhs", body)
        body = L.resolve_pp(body)
        body = L.apply_rules(body, self.rules)
        body = L.apply_rules(body, L.GENERIC_RULES)
        body = L.apply_rules(body, self.post)
        body, nloops = L.splice_loops(body, self.loops)
        return {"text": body, "line": line, "file": self.src, "raw": raw, "nloops": nloops, "header": ""}


class CanonLoopVar(Rule):
    """rename the counter declared in `for (std::size_t NAME = ...` to vx_k (the loop contract has to name it in its
    assigns clause; a renamed local must not become an extraction failure)"""
    n = None

    def apply(self, text):
        names = set(re.findall(r"\bfor\s*\(\s*std::size_t\s+(\w+)\s*=", text))
        if len(names) > 1:
            raise LiftError("CanonLoopVar: several differently named loop counters")
        for nm in names:
            text = re.sub(r"\b%s\b" % re.escape(nm), "vx_k", text)
        return text


QUAL = Sub(r"\bstop_state::(?=\w+\b(?!\s*\())", "", None)      # stop_state::locked_flag -> locked_flag
AUTO = Sub(r"\bauto\b(?=\s+\w+\s*=)", "uint64_t", None)          # `auto x = <word expr>` (std::uint64_t everywhere here)
YIELD = Call(r"\bpika::execution::this_thread::detail::yield_k", "yield_k({0})", None)
LOAD = Call(r"(?<![\w.>])state_\.load", "atomic_load(&self->state_)", "+")
CAS = Call(r"(?<![\w.>])state_\.compare_exchange_weak", "atomic_cas_weak(&self->state_, &{0}, {1})", 1)
FETCH_SELF = Call(r"(?<![\w.>])state_\.fetch_(add|sub)", "atomic_fetch_{h1}(&self->state_, {0})", 1)   # which one is semantics: captured
# unlock(): the pinned text is one fetch_sub; a load / store spelling is lifted as well (a store of a value computed from an earlier load
# is a step from whatever the word holds AT THE STORE: the guarantee is checked against that)
UNLOCK_RULES = [Call(r"(?<![\w.>])state_\.fetch_(add|sub)", "atomic_fetch_{h1}(&self->state_, {0})", None),
                Call(r"(?<![\w.>])state_\.store", "atomic_store(&self->state_, {0})", None),
                Call(r"(?<![\w.>])state_\.load", "atomic_load(&self->state_)", None)]
FETCH_P = Call(r"\b(\w+)->state_\.fetch_(add|sub)", "atomic_fetch_{h2}(&{h1}->state_, {0})", 1)
EXEC = Call(r"\b(\w+)->execute", "cb_execute({h1})", None)
FLAG = Call(r"\b(\w+)->callback_finished_executing_\.store", "flag_store({h1}, {0})", None)

CONSTS = Lift(HPP, r"static constexpr std::uint64_t token_ref_increment", fragment_end=r"\blocked_flag\s*=[^;]*;",
              rules=[StripComments(), ConstDefs()])
WORD_LIFTS = {
    "consts": CONSTS,
    "is_locked": Lift(HPP, r"static bool is_locked\(std::uint64_t \w+\)", rules=[StripComments(), QUAL]),
    "stop_requested_w": Lift(HPP, r"static bool stop_requested\(std::uint64_t \w+\)", rules=[StripComments(), QUAL]),
    "stop_possible_w": Lift(HPP, r"static bool stop_possible\(std::uint64_t \w+\)", rules=[StripComments(), QUAL]),
}

S = "stop_state::"
FN = {
    "lock": CPP + ": detail::stop_state::lock",
    "unlock": HPP + ": detail::stop_state::unlock",
    "lars": CPP + ": detail::stop_state::lock_and_request_stop",
    "lins": CPP + ": detail::stop_state::lock_if_not_stopped",
    "asc": HPP + ": detail::stop_state::add_source_count",
    "rsc": HPP + ": detail::stop_state::remove_source_count",
    "addref": CPP + ": detail::intrusive_ptr_add_ref(stop_state*)",
    "release": CPP + ": detail::intrusive_ptr_release(stop_state*)",
    "preds": HPP + ": detail::stop_state::is_locked/stop_requested/stop_possible(std::uint64_t)",
}

# loop contracts for the CAS-retry loops (ordinal 1 = outer while, 2 = inner spin loop)
# every word seen inside the loops is rely-reachable from the word at loop entry (hence from the word at function entry)
RELY_INV = "__CPROVER_loop_invariant(RELY_G(__CPROVER_loop_entry(self->state_), self->state_, 0, g_mytok, g_mysrc))\n"
S_ASSIGNS = "old_state, expected, self->state_, vxg"
LOOP_LOCK_OUTER = """
__CPROVER_assigns(%s)
__CPROVER_loop_invariant(!lin && !g_held && g_mytok == __CPROVER_loop_entry(g_mytok) && g_mysrc == __CPROVER_loop_entry(g_mysrc))
__CPROVER_loop_invariant(expected == (old_state & ~S_LOCKBIT))
%s""" % (S_ASSIGNS, RELY_INV)
LOOP_LOCK_INNER = """
__CPROVER_assigns(vx_k, %s)
__CPROVER_loop_invariant(!lin && !g_held && g_mytok == __CPROVER_loop_entry(g_mytok) && g_mysrc == __CPROVER_loop_entry(g_mysrc))
%s""" % (S_ASSIGNS, RELY_INV)
# lock_and_request_stop / lock_if_not_stopped: the retry must never be prepared from a word whose stop bit is set
LOOP_STOP_OUTER = LOOP_LOCK_OUTER + """
__CPROVER_loop_invariant(!W_STOP(old_state))
"""
LOOP_STOP_INNER = LOOP_LOCK_INNER + """
__CPROVER_loop_invariant(!W_STOP(old_state))
"""
LOOP_LINS_OUTER = """
__CPROVER_assigns(%s, cb->m)
__CPROVER_loop_invariant(!lin && !g_held && g_mytok == __CPROVER_loop_entry(g_mytok) && g_mysrc == __CPROVER_loop_entry(g_mysrc) && cb->g_exec == 0 && !cb->callback_finished_executing_ && !cb->g_dead)
__CPROVER_loop_invariant(expected == (old_state & ~S_LOCKBIT))
__CPROVER_loop_invariant(!W_STOP(old_state))
%s""" % (S_ASSIGNS, RELY_INV)
LOOP_LINS_INNER = """
__CPROVER_assigns(vx_k, %s, cb->m)
__CPROVER_loop_invariant(!lin && !g_held && g_mytok == __CPROVER_loop_entry(g_mytok) && g_mysrc == __CPROVER_loop_entry(g_mysrc) && cb->g_exec == 0 && !cb->callback_finished_executing_ && !cb->g_dead)
__CPROVER_loop_invariant(!W_STOP(old_state))
%s""" % (S_ASSIGNS, RELY_INV)


def word_unit(name, define, enforce, body, funcs, **kw):
    lifts = dict(WORD_LIFTS)
    if body is not None:
        lifts["body"] = body
    return Unit(name, "word.c" if body is not None else "wordf.c", defines=[define], enforce=enforce, lifts=lifts,
                funcs=funcs, **kw)


UNITS = [
    # ---- unit 1: F ----
    word_unit("word.layout", "U_LAYOUT", None, None, [HPP + ": detail::stop_state field constants"], kind="lemma",
              min_obligations=6),
    word_unit("word.predicates", "U_PREDICATES", None, None, [FN["preds"]], min_obligations=3),
    # ---- unit 2: S ----
    word_unit("word.rg_lemmas", "U_RG_LEMMAS", None, None, [], kind="lemma", min_obligations=4),
    word_unit("state.lock", "U_LOCK", "lock",
              Lift(CPP, r"void stop_state::lock\(\)", rules=[CanonLoopVar(), LOAD, CAS, YIELD, QUAL, AUTO],
                   loops={1: LOOP_LOCK_OUTER, 2: LOOP_LOCK_INNER, "count": 2}), [FN["lock"]], min_obligations=40),
    word_unit("state.unlock", "U_UNLOCK", "unlock",
              Lift(HPP, r"void unlock\(\) noexcept", rules=[StripComments()] + UNLOCK_RULES + [QUAL]),
              [FN["unlock"]], min_obligations=10),
    word_unit("state.lock_and_request_stop", "U_LOCK_AND_REQUEST_STOP", "lock_and_request_stop",
              Lift(CPP, r"bool stop_state::lock_and_request_stop\(\)", rules=[CanonLoopVar(), LOAD, CAS, YIELD, QUAL, AUTO],
                   loops={1: LOOP_STOP_OUTER, 2: LOOP_STOP_INNER, "count": 2}), [FN["lars"]], min_obligations=40),
    word_unit("state.lock_if_not_stopped", "U_LOCK_IF_NOT_STOPPED", "lock_if_not_stopped",
              Lift(CPP, r"bool stop_state::lock_if_not_stopped\(", rules=[CanonLoopVar(), LOAD, CAS, YIELD, EXEC, FLAG, QUAL, AUTO],
                   loops={1: LOOP_LINS_OUTER, 2: LOOP_LINS_INNER, "count": 2}), [FN["lins"]], min_obligations=40),
    word_unit("state.add_source_count", "U_ADD_SOURCE_COUNT", "add_source_count",
              Lift(HPP, r"void add_source_count\(\)", rules=[
                  StripComments(), FETCH_SELF, QUAL]),
              [FN["asc"]], min_obligations=10),
    word_unit("state.remove_source_count", "U_REMOVE_SOURCE_COUNT", "remove_source_count",
              Lift(HPP, r"void remove_source_count\(\)", rules=[
                  StripComments(), FETCH_SELF, QUAL]),
              [FN["rsc"]], min_obligations=10),
    word_unit("state.intrusive_ptr_add_ref", "U_ADD_REF", "intrusive_ptr_add_ref",
              Lift(CPP, r"void intrusive_ptr_add_ref\(stop_state\* p\)", rules=[
                  FETCH_P, QUAL]),
              [FN["addref"]], min_obligations=10),
    word_unit("state.intrusive_ptr_release", "U_RELEASE", "intrusive_ptr_release",
              Lift(CPP, r"void intrusive_ptr_release\(stop_state\* p\)", rules=[
                  FETCH_P,
                  Sub(r"\bdelete (\w+);", r"stop_state_delete(\1);", None), QUAL]),
              [FN["release"]], min_obligations=10),
]

# ---------------------------------------------------------------------------------------------------------------
# unit 3: source ledger
# type map: the data member of stop_source / stop_token is an intrusive_ptr<stop_state> -> struct iptr (trusted model)
IPTR_RULES = [
    Sub(r"&rhs\b", "rhs", None),                                       # `this != &rhs`: rhs is a pointer in the C model
    Sub(r"VX_MEMINIT\((\w+), new detail::stop_state, (\w+)\);", r"iptr_ctor_ptr(&self->\1, stop_state_new(), \2);", None),
    Sub(r"VX_MEMINIT\((\w+), std::move\((\w+)\.(\w+)\)\);", r"iptr_ctor_move(&self->\1, &\2->\3);", None),
    Sub(r"VX_MEMINIT\((\w+), (\w+)\.(\w+)\);", r"iptr_ctor_copy(&self->\1, &\2->\3);", None),
    Sub(r"VX_MEMINIT\((\w+), (\w+)\);", r"iptr_ctor_copy(&self->\1, \2);", None),
    Sub(r"VX_MEMINIT\((\w+)\);", r"iptr_ctor_default(&self->\1);", None),
    Sub(r"VX_MEMDTOR\((\w+)\);", r"iptr_dtor(&self->\1);", None),
    Sub(r"(?<![\w.>])(\w+_) = std::move\((\w+)\.(\w+_)\);", r"iptr_assign_move(&self->\1, &\2->\3);", None),
    Sub(r"(?<![\w.>])(\w+_) = (\w+)\.(\w+_);", r"iptr_assign_copy(&self->\1, &\2->\3);", None),
    Sub(r"\b(\w+)\.(\w+_) = (\w+_);", r"iptr_assign_copy(&\1->\2, &self->\3);", None),
    Sub(r"std::swap\((\w+_), (\w+)\.(\w+_)\);", r"iptr_std_swap(&self->\1, &\2->\3);", None),
    Sub(r"(?<![\w.>])(\w+_) (==|!=) (\w+)\.(\w+_)\b", r"(self->\1.px \2 \3->\4.px)", None),
    # a smart-pointer member used as an operand of && / || (contextual conversion to bool)
    Sub(r"(?<![\w.>&])(!?)(\w+_)(\s*(?:&&|\|\|))", r"\1iptr_bool(&self->\2)\3", None),
    Sub(r"((?:&&|\|\|)\s*)(!?)(\w+_)(?=\s*(?:\)|&&|\|\|))", r"\1\2iptr_bool(&self->\3)", None),
    Sub(r"(?<![\w.>&])(!?)(\w+)\.(\w+_)(\s*(?:&&|\|\|))", r"\1iptr_bool(&\2->\3)\4", None),
    Sub(r"((?:&&|\|\|)\s*)(!?)(\w+)\.(\w+_)(?=\s*(?:\)|&&|\|\|))", r"\1\2iptr_bool(&\3->\4)", None),
    Sub(r"\(\s*(!?)(\w+_)\s*\)", r"(\1iptr_bool(&self->\2))", None),
    Sub(r"\(\s*(!?)(\w+)\.(\w+_)\s*\)", r"(\1iptr_bool(&\2->\3))", None),
    Call(r"(?<![\w.>])(\w+_)->(\w+)", "{h2}(iptr_arrow(&self->{h1}))", None),
    Call(r"\b(\w+)\.(\w+_)->(\w+)", "{h3}(iptr_arrow(&{h1}->{h2}))", None),
    Sub(r"return \*this;", "return self;", None),
    Sub(r"\bthis\b", "self", None),
]
SCALAR_CTOR_RULES = [
    Sub(r"VX_MEMINIT\(signalling_thread_\);", "self->signalling_thread_ = 0;", 1),   # thread_id_type(): invalid id
    Sub(r"VX_MEMINIT\((\w+), ([^;]+)\);", r"self->\1 = \2;", 2),
    QUAL,
]
LEDGER_LIFTS = {
    "consts": CONSTS,
    "stop_state_ctor": MemberLift(HPP, "stop_state", r"\bstop_state\(\)", "ctor", rules=SCALAR_CTOR_RULES,
                                  expect_members=["state_", "callbacks_", "signalling_thread_"]),
    "add_source_count": Lift(HPP, r"void add_source_count\(\)", rules=[StripComments(), FETCH_SELF, QUAL]),
    "remove_source_count": Lift(HPP, r"void remove_source_count\(\)", rules=[StripComments(), FETCH_SELF, QUAL]),
    "add_ref": Lift(CPP, r"void intrusive_ptr_add_ref\(stop_state\* p\)", rules=[
        FETCH_P, QUAL]),
    "release": Lift(CPP, r"void intrusive_ptr_release\(stop_state\* p\)", rules=[
        FETCH_P,
        Sub(r"\bdelete (\w+);", r"stop_state_delete(\1);", None), QUAL]),
}


def ledger_unit(cls, opname, define, enforce, head, kind, **kw):
    lifts = dict(LEDGER_LIFTS)
    lifts["body"] = MemberLift(HPP, cls, head, kind, rules=IPTR_RULES, expect_members=["state_"])
    return Unit("%s.%s" % (cls.replace("stop_", ""), opname), "ledger.c",
                defines=[define, "K_SOURCE=%d" % (1 if cls == "stop_source" else 0)], enforce=enforce, lifts=lifts,
                funcs=["%s: %s::%s" % (HPP, cls, opname)], min_obligations=20, **kw)


UNITS += [
    ledger_unit("stop_source", "default_ctor", "U_DEFAULT_CTOR", "obj_default_ctor", r"(?<!~)\bstop_source\(\)", "ctor"),
    ledger_unit("stop_source", "nostopstate_ctor", "U_NOSTOP_CTOR", "obj_nostop_ctor", r"explicit stop_source\(nostopstate_t\)", "ctor"),
    ledger_unit("stop_source", "copy_ctor", "U_COPY_CTOR", "obj_copy_ctor", r"\bstop_source\(stop_source const&(?: \w+)?\)", "copy_ctor"),
    ledger_unit("stop_source", "move_ctor", "U_MOVE_CTOR", "obj_move_ctor", r"\bstop_source\(stop_source&&(?: \w+)?\)", "move_ctor"),
    ledger_unit("stop_source", "copy_assign", "U_COPY_ASSIGN", "obj_copy_assign", r"\bstop_source& operator=\(stop_source const&(?: \w+)?\)", "copy_assign"),
    ledger_unit("stop_source", "move_assign", "U_MOVE_ASSIGN", "obj_move_assign", r"\bstop_source& operator=\(stop_source&&(?: \w+)?\)", "move_assign"),
    ledger_unit("stop_source", "dtor", "U_DTOR", "obj_dtor", r"~stop_source\(\)", "dtor"),
    ledger_unit("stop_source", "swap", "U_SWAP", "obj_swap", r"\bvoid swap\(stop_source& \w+\)", "method"),
    ledger_unit("stop_token", "default_ctor", "U_DEFAULT_CTOR", "obj_default_ctor", r"(?<!~)\bstop_token\(\)", "ctor"),
    ledger_unit("stop_token", "from_state_ctor", "U_FROM_STATE", "obj_from_state", r"\bstop_token\(pika::memory::intrusive_ptr<detail::stop_state> const& \w+\)", "ctor"),
    ledger_unit("stop_token", "copy_ctor", "U_COPY_CTOR", "obj_copy_ctor", r"\bstop_token\(stop_token const&(?: \w+)?\)", "copy_ctor"),
    ledger_unit("stop_token", "move_ctor", "U_MOVE_CTOR", "obj_move_ctor", r"\bstop_token\(stop_token&&(?: \w+)?\)", "move_ctor"),
    ledger_unit("stop_token", "copy_assign", "U_COPY_ASSIGN", "obj_copy_assign", r"\bstop_token& operator=\(stop_token const&(?: \w+)?\)", "copy_assign"),
    ledger_unit("stop_token", "move_assign", "U_MOVE_ASSIGN", "obj_move_assign", r"\bstop_token& operator=\(stop_token&&(?: \w+)?\)", "move_assign"),
    ledger_unit("stop_token", "dtor", "U_DTOR", "obj_dtor", r"~stop_token\(\)", "dtor"),
    ledger_unit("stop_token", "swap", "U_SWAP", "obj_swap", r"\bvoid swap\(stop_token& \w+\)", "method"),
]

# ---------------------------------------------------------------------------------------------------------------
# unit 4: callback list
REFPARAM = [Sub(r"&callbacks\b", "VX_ADDR_OF_REF", None), Sub(r"\bcallbacks\b", "(*callbacks)", None),
            Sub(r"\bVX_ADDR_OF_REF\b", "callbacks", None)]   # reference parameter T*& -> T**
ADD_THIS = Lift(CPP, r"void stop_callback_base::add_this_callback\(stop_callback_base\*& callbacks\)",
                rules=REFPARAM + [Members(["next_", "prev_"], optional=["next_", "prev_"]), Sub(r"\bthis\b", "self", None)])
REMOVE_THIS = Lift(CPP, r"bool stop_callback_base::remove_this_callback\(\)",
                   rules=[Members(["next_", "prev_"], optional=["next_", "prev_"])])
FN_ADD_THIS = CPP + ": detail::stop_callback_base::add_this_callback"
FN_REMOVE_THIS = CPP + ": detail::stop_callback_base::remove_this_callback"

UNITS += [
    Unit("list.add_this_callback", "list.c", defines=["U_ADD_THIS"], enforce="add_this_callback", lifts={"body": ADD_THIS},
         funcs=[FN_ADD_THIS], min_obligations=20),
    Unit("list.remove_this_callback", "list.c", defines=["U_REMOVE_THIS"], enforce="remove_this_callback",
         lifts={"body": REMOVE_THIS}, funcs=[FN_REMOVE_THIS], min_obligations=20),
]



def loop_body_span(text, ordinal):
    """(open, close) of the `{...}` body of the ordinal-th for/while loop (textual order) of a function body"""
    found = []
    if re.search(r"\bdo\b", text):
        raise LiftError("loop_body_span: do-loops not supported")
    for m in re.finditer(r"\b(for|while)\b", text):
        j = m.end()
        while text[j].isspace():
            j += 1
        if text[j] != "(":
            continue
        k = L.match_close(text, j) + 1
        while text[k].isspace():
            k += 1
        if text[k] != "{":
            raise LiftError("loop %d has no block body" % (len(found) + 1))
        found.append((k, L.match_close(text, k, "{", "}")))
    if ordinal < 1 or ordinal > len(found):
        raise LiftError("loop %d not found (%d loops)" % (ordinal, len(found)))
    return found[ordinal - 1]


class LoopBodyLift(Lift):
    """the body `{...}` of the ordinal-th loop of a function, as a fragment unit ("one iteration"; DESIGN 3.1).  The body
    must be closed: it may use only `this` and variables it declares itself (checked by the C compiler: anything else is
    an undeclared identifier)."""

    def __init__(self, src, locate, ordinal, rules=(), post=()):
        Lift.__init__(self, src, locate, rules=rules, post=post)
        self.ordinal = ordinal

    def run(self):
        body, line, header = L.locate(self.src, self.locate)
        body = L.resolve_pp(body)
        a, b = loop_body_span(body, self.ordinal)
        frag = body[a:b + 1]
        line += body.count("\n", 0, a)
        text = L.apply_rules(frag, self.rules)
        text = L.apply_rules(text, L.GENERIC_RULES)
        text = L.apply_rules(text, self.post)
        return {"text": text, "line": line, "file": self.src, "raw": frag, "nloops": 0, "header": header}


class OutlineLoop(Rule):
    """replace the body of the ordinal-th loop by a call of the function that a LoopBodyLift unit proves for exactly that
    text (outlining of a closed block: purely syntactic).  Must be the first rule of the lift."""
    n = 1

    def __init__(self, ordinal, call):
        self.ordinal, self.call = ordinal, call

    def apply(self, text):
        a, b = loop_body_span(text, self.ordinal)
        return text[:a] + "{ " + self.call + " }" + text[b + 1:]


class LiftOptLoops(Lift):
    """like Lift, but loop contracts whose loop does not exist (any more) are dropped instead of being an extraction
    failure: a removed wait loop must show up as a failed obligation"""

    def run(self):
        loops, self.loops = self.loops, {}
        try:
            r = Lift.run(self)
        finally:
            self.loops = loops
        keep = {k: v for k, v in loops.items() if not isinstance(k, int) or k <= r["nloops"]}
        self.loops = keep
        try:
            return Lift.run(self)
        finally:
            self.loops = loops


class ContractsFrom(Lift):
    """splice the signature + contract clauses of the named //@FUNC functions of another template of this spec as
    declarations (so that a caller unit uses verbatim the contract that the callee's own unit proves)"""

    def __init__(self, template, names):
        self.template, self.names = template, names

    def run(self):
        import os
        path = os.path.join(os.path.dirname(os.path.abspath(L.__file__)), "..", "specs", "C14", self.template)
        path = os.path.normpath(path)
        w = open(path).read()
        out, first = [], None
        for nm in self.names:
            m = re.search(r"//@FUNC\n(\w[^\n]*\b%s\([^\n]*\)\n(?:(?:__CPROVER_|/\*| \*| {5,})[^\n]*\n)+?)//@LIFT body" % re.escape(nm), w)
            if not m:
                raise LiftError("contract of %s not found in %s" % (nm, self.template))
            if first is None:
                first = w.count("\n", 0, m.start(1)) + 1
            out.append(m.group(1).rstrip() + "\n;\n")
        return {"text": "".join(out), "line": first, "file": path, "raw": "".join(out), "nloops": 0, "header": ""}


SCOPED_RULES = [
    Sub(r"VX_MEMINIT\((state_|m_), (\w+)\);", r"self->\1 = \2;", None),               # reference member -> pointer
    Sub(r"VX_MEMINIT\((has_lock_), ([^;]+)\);", r"self->\1 = \2;", None),
    Sub(r"VX_MEMDTOR\(\w+\);", "", None),                                               # trivially destructible members
    Call(r"(?<![\w>])state_\.lock_if_not_stopped", "t_lock_if_not_stopped(self->state_, {0})", None),
    Call(r"(?<![\w>])state_\.lock_and_request_stop", "t_lock_and_request_stop(self->state_)", None),
    Call(r"(?<![\w>])(state_|m_)\.unlock", "mon_unlock(self->{h1})", None),
    Call(r"(?<![\w>])(state_|m_)\.lock", "mon_lock(self->{h1})", None),
    Members(["has_lock_"], optional=["has_lock_"]),
]
UG = "libs/pika/thread_support/include/pika/thread_support/unlock_guard.hpp"


def scoped(cls, what):
    head = {"ctor": r"\b%s\(stop_state& state(?:, stop_callback_base\* cb)?\)" % cls, "dtor": r"~%s\(\)" % cls,
            "bool": r"explicit operator bool\(\)"}[what]
    return MemberLift(CPP, cls, head, what if what != "bool" else "method", rules=SCOPED_RULES,
                      expect_members=["state_", "has_lock_"], rename_param=False)


CB_COMMON = dict(WORD_LIFTS, callee_contracts=ContractsFrom("word.c", ["lock", "unlock", "lock_and_request_stop", "lock_if_not_stopped"]),
                 add_this=ADD_THIS, remove_this=REMOVE_THIS,
                 b_lock=Lift(CPP, r"void stop_state::lock\(\)", rules=[CanonLoopVar(), LOAD, CAS, YIELD, QUAL, AUTO], loops={"count": 2}),
                 b_unlock=Lift(HPP, r"void unlock\(\) noexcept", rules=[StripComments()] + UNLOCK_RULES + [QUAL]),
                 b_lars=Lift(CPP, r"bool stop_state::lock_and_request_stop\(\)", rules=[CanonLoopVar(), LOAD, CAS, YIELD, QUAL, AUTO], loops={"count": 2}),
                 slins_ctor=scoped("scoped_lock_if_not_stopped", "ctor"), slins_dtor=scoped("scoped_lock_if_not_stopped", "dtor"),
                 slins_bool=scoped("scoped_lock_if_not_stopped", "bool"),
                 slars_ctor=scoped("scoped_lock_and_request_stop", "ctor"), slars_dtor=scoped("scoped_lock_and_request_stop", "dtor"),
                 slars_bool=scoped("scoped_lock_and_request_stop", "bool"),
                 ug_ctor=MemberLift(UG, "unlock_guard", r"explicit unlock_guard\(Mutex& m\)", "ctor", rules=SCOPED_RULES,
                                    expect_members=["m_"], rename_param=False),
                 ug_dtor=MemberLift(UG, "unlock_guard", r"~unlock_guard\(\)", "dtor", rules=SCOPED_RULES, expect_members=["m_"]))
GET_SELF = Call(r"\bpika::threads::detail::get_self_id", "get_self_id()", None)


def lambda_loop(args, env):
    m = re.fullmatch(r"\[&\]\(\)\s*\{\s*return\s+(.*);\s*\}", args[0], re.S)
    if not m:
        raise LiftError("yield_while: predicate is not a `[&]() { return E; }` lambda")
    return "while (%s) { yield_spin(); }" % m.group(1)


LOOP_SPIN = """
__CPROVER_assigns(g_V.m, cbg.waited)
__CPROVER_loop_invariant(!g_held && g_V.g_exec >= 0 && g_V.g_exec <= 1)
"""

RS = r"bool stop_state::request_stop\(\)"
STEP_RULES = [
    Guard(r"detail::unlock_guard<stop_state> (\w+)\(\*this\);",
          r"struct unlock_guard \1; unlock_guard_ctor(&\1, self);", r"unlock_guard_dtor(&\1);", None),
    EXEC, FLAG,
    Sub(r"\bauto\* (\w+) =", r"struct stop_callback_base *\1 =", None),
    Members(["callbacks_"], optional=["callbacks_"]),
]
SLARS_RULES = [
    Guard(r"scoped_lock_and_request_stop (\w+)\(\*this\);",
          r"struct scoped_lock \1; scoped_lock_and_request_stop_ctor(&\1, self);", r"scoped_lock_and_request_stop_dtor(&\1);", 1),
    Sub(r"\(!l\)", "(!scoped_lock_and_request_stop_bool(&l))", None),
    LOAD, GET_SELF,
    Sub(r"\bpika::threads::detail::invalid_thread_id\b", "0", None),
]


def RS_BODY(loop, outline):
    if outline:   # loop body replaced by a call of drain_step (proved by cb.request_stop.step for the same text)
        rules = [OutlineLoop(1, "drain_step(self);")] + SLARS_RULES + [Members(["callbacks_", "signalling_thread_"], optional=["callbacks_", "signalling_thread_"])]
    else:
        rules = SLARS_RULES + STEP_RULES[:-1] + [Members(["callbacks_", "signalling_thread_"], optional=["callbacks_", "signalling_thread_"])]
    return Lift(CPP, RS, rules=rules, loops=({1: loop, "count": 1} if loop else {"count": 1}))


LOOP_DRAIN = """
__CPROVER_assigns(CB_FRAME_W)
__CPROVER_loop_invariant(SINV(self))
__CPROVER_loop_invariant(g_win_old == __CPROVER_loop_entry(g_win_old) && g_win_new == __CPROVER_loop_entry(g_win_new) && g_v_listed_at_win == __CPROVER_loop_entry(g_v_listed_at_win))
"""

UNITS += [
    Unit("cb.add_callback", "cb.c", defines=["U_ADD_CALLBACK"], enforce="add_callback",
         replace=["lock", "unlock", "lock_if_not_stopped"],
         lifts=dict(CB_COMMON,
                    body=Lift(CPP, r"bool stop_state::add_callback\(stop_callback_base\* cb\)", rules=[
                        Guard(r"scoped_lock_if_not_stopped (\w+)\(\*this, (\w+)\);",
                              r"struct scoped_lock \1; scoped_lock_if_not_stopped_ctor(&\1, self, \2);", r"scoped_lock_if_not_stopped_dtor(&\1);", 1),
                        Sub(r"\(!l\)", "(!scoped_lock_if_not_stopped_bool(&l))", None),
                        Call(r"\b(\w+)->add_this_callback", "add_this_callback({h1}, &{0})", None),
                        EXEC, FLAG,
                        Members(["callbacks_"], optional=["callbacks_"])])),
         funcs=[CPP + ": detail::stop_state::add_callback, scoped_lock_if_not_stopped", FN_ADD_THIS], min_obligations=60),
] + [
    Unit("cb.remove_callback" + sfx, "cb.c", defines=["U_REMOVE_CALLBACK"] + kf, enforce="remove_callback", replace=["lock", "unlock"],
         doc=doc, tier=tier,
         lifts=dict(CB_COMMON, body=LiftOptLoops(CPP, r"void stop_state::remove_callback\(stop_callback_base\* cb\)", rules=[
             Guard(r"std::lock_guard<stop_state> (\w+)\(\*this\);", "mon_lock(self);", "mon_unlock(self);", None),
             Sub(r"\bpika::threads::detail::invalid_thread_id\b", "0", None),
             Call(r"\b(\w+)->remove_this_callback", "remove_this_callback({h1})", None),
             GET_SELF, Members(["signalling_thread_"], optional=["signalling_thread_"]), EXEC, FLAG,
             Call(r"(?<![\w.>])state_\.load", "atomic_load(&self->state_)", None),
             Call(r"\bpika::util::yield_while", lambda_loop, None),
             Call(r"\b(\w+)->callback_finished_executing_\.load", "flag_load({h1})", None)],
             loops={1: LOOP_SPIN})),
         funcs=[CPP + ": detail::stop_state::remove_callback", FN_REMOVE_THIS], min_obligations=60)
    for (sfx, kf, doc, tier) in [
        ("", [], "full input domain: any thread kind, any history of the callback", "quick"),
        (".pika_threads", ["KF_PIKA_THREADS_ONLY"], "input class (a) excluded only (isolates the never-registered-callback spin)", "thorough"),
        (".registered", ["KF_REGISTERED_ONLY"], "input class (b) excluded only (isolates the two-OS-threads case)", "thorough"),
        (".pika_threads_registered", ["KF_PIKA_THREADS_ONLY", "KF_REGISTERED_ONLY"],
         "same contract with two input classes excluded: (a) signaller and caller are two different plain OS threads "
         "(both report invalid_thread_id), (b) callback that add_callback refused because stop was impossible", "quick")]
] + [
    Unit("cb.request_stop.bounded3", "cb.c", defines=["U_REQUEST_STOP", "U_BOUNDED"], enforce=None, kind="bounded",
         unwind=5, loop_contracts=False,
         doc="bounded stand-in (not counted as proof): the real bodies of request_stop, lock_and_request_stop, lock, unlock, "
             "unlock_guard and the list primitives run end to end on a concrete list of <= 3 nodes in any order, loop unwound, "
             "word accessed sequentially; the only environment step between critical sections is the victim's deregistration",
         lifts=dict(CB_COMMON, body=RS_BODY(None, False), step=LoopBodyLift(CPP, RS, 1, rules=STEP_RULES)),
         funcs=[CPP + ": detail::stop_state::request_stop"], min_obligations=100),
    Unit("cb.request_stop.step", "cb.c", defines=["U_REQUEST_STOP", "U_STEP"], enforce="drain_step", replace=["lock", "unlock"],
         loop_contracts=False,
         doc="one iteration of request_stop's callback loop (fragment unit: the loop body), arbitrary list seen through the "
             "window, one symbolic victim",
         lifts=dict(CB_COMMON, body=RS_BODY(LOOP_DRAIN, True), step=LoopBodyLift(CPP, RS, 1, rules=STEP_RULES)),
         funcs=[CPP + ": detail::stop_state::request_stop (loop body)", UG + ": detail::unlock_guard"], min_obligations=100),
    Unit("cb.request_stop", "cb.c", defines=["U_REQUEST_STOP"], enforce="request_stop",
         replace=["lock", "unlock", "lock_and_request_stop", "drain_step"],
         doc="whole function; the loop body is outlined into drain_step, whose contract cb.request_stop.step proves",
         lifts=dict(CB_COMMON, body=RS_BODY(LOOP_DRAIN, True), step=LoopBodyLift(CPP, RS, 1, rules=STEP_RULES)),
         funcs=[CPP + ": detail::stop_state::request_stop, scoped_lock_and_request_stop", UG + ": detail::unlock_guard"],
         min_obligations=100),
]

META = {
    "trusted_base": [
        "specs/C14/stop.h atomic_load/atomic_cas_weak/atomic_fetch_add/atomic_fetch_sub + interfere(): std::atomic<uint64_t> as an "
        "indivisible sequentially consistent word; before every access the environment may replace the word by any value allowed by "
        "the rely RELY_G (stop bit never cleared and set only together with taking the lock; the lock bit is not touched while this "
        "agent holds it; references this agent owns stay counted; fewer than 2^31-1 references of either kind; 'stop impossible' "
        "(no stop requested, no source) is stable); compare_exchange_weak may fail spuriously; VX_ASSUME(RELY) in interfere()",
        "specs/C14/stop.h yield_k: spinning is an environment stub (other agents' steps are the interference applied at the next access)",
        "specs/C14/ledger.c struct iptr + iptr_*: hand-written model of pika::memory::intrusive_ptr<stop_state> (copy = add_ref, move = "
        "steal, assignment = copy/move-and-swap, destructor = release, operator-> asserts non-null); it calls the LIFTED "
        "intrusive_ptr_add_ref/intrusive_ptr_release; std::swap = move-construct + two move-assignments",
        "specs/C14/spec.py MemberLift: C++ semantics of special members made explicit as text before the rewrite rules run: "
        "mem-initialiser lists and implicit member default-initialisation become VX_MEMINIT statements, implicit member destruction "
        "becomes VX_MEMDTOR statements, '= default' members are expanded member-wise from the class's data-member list (which is read "
        "from the class definition and compared with the C model)",
        "specs/C14/cb.c mon_materialise/mon_havoc_list (VX_ASSUME): when the state lock is acquired, and at the head of every "
        "iteration of request_stop's loop (lock held continuously since), the callback list satisfies the monitor invariant "
        "(head cell and first node linked to each other, listed callbacks not yet executed, a listed victim reachable from the head) -- "
        "asserted at every release point of add_callback/remove_callback/request_stop; the list is seen through a window of two "
        "anonymous nodes plus one symbolic victim; reachability of the victim is checked/assumed to depth 2 only (no quantifiers)",
        "specs/C14/cb.c mon_lock/mon_unlock/t_lock_*: glue that resets the per-call linearisation ghost before a word operation used "
        "through its S-contract; std::lock_guard = lock()/unlock(); get_self_id() returns an opaque id (0 = invalid_thread_id for "
        "every plain OS thread; distinct non-zero ids for distinct live pika threads)",
        "specs/C14/cb.c cb_execute/cb_user_code/flag_load: user callback as a counter + order predicates; a callback running on the "
        "signalling thread may destroy its own stop_callback (sets *is_removed_ as remove_callback's contract says); the finished "
        "flag of a dequeued callback is set only by the signaller after running it",
        "cb.request_stop: the loop body is outlined (OutlineLoop rule) into drain_step, whose contract is proved for the same text by "
        "cb.request_stop.step; word operations are used through the contracts spliced verbatim from specs/C14/word.c "
        "(state.lock_and_request_stop and state.lock_if_not_stopped do NOT prove on the unchanged tree: see findings)",
    ],
    "assumptions": [
        "fewer than 2^31-1 stop_tokens/stop_callbacks/stop_sources per stop state are alive at any time (the 31-bit fields have no "
        "overflow check in pika)",
        "request_stop is reachable only through a stop_source and a shared state gets a new source only as a copy of a live source "
        "(preconditions g_mysrc >= 1 of lock_and_request_stop / add_source_count; re-proved at the lifted call sites of the ledger units)",
        "source ledger units are sequential (one special member at a time, no interference); the atomic steps they are built from are "
        "the S-units",
        "A-CLOSED for stop_state::state_, callbacks_, signalling_thread_: written only by the functions lifted here (stop_token.cpp/.hpp); "
        "jthread.hpp only calls the public API",
    ],
    "not_decided": [
        "termination of the yield_k / yield_while spinning (lock acquisition, remove_callback waiting for the finished flag)",
        "pika::memory::intrusive_ptr itself (trusted model), std::lock_guard, thread identity beyond get_self_id()",
        "stop_callback<Callback> constructor/destructor templates (they only call add_callback/remove_callback), jthread",
        "memory-order adequacy (A-SC)",
        "full reachability of a registered callback from the list head (window approximation, depth 2)",
    ],
}
