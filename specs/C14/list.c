/* C14 unit 4a -- stop_callback_base::add_this_callback / remove_this_callback: pointer contracts of the intrusive doubly
 * linked list whose back link is a pointer to the predecessor's forward pointer (prev_ == &pred->next_ or &head).
 *
 * Both functions are loop free and touch only the node itself, the cell *prev_ and the immediate successor, so a universe
 * of {list head cell, one predecessor node, the node, one successor node} with arbitrary contents elsewhere is the full
 * domain (F/I contract, complete proof, not a bounded stand-in).
 * Local well-formedness of a linked node c:   *c->prev_ == c   and   c->next_ != NULL ==> c->next_->prev_ == &c->next_ */
#include "stop.h"

static struct stop_callback_base *g_head;          /* the list head cell (stop_state::callbacks_) */
static struct stop_callback_base g_P, g_C, g_N;    /* predecessor, the node under operation, successor */
static struct stop_callback_base *g_far;           /* what g_N.next_ points to is irrelevant: opaque */

#ifdef U_ADD_THIS
//@FUNC
void add_this_callback(struct stop_callback_base *self, struct stop_callback_base **callbacks)
__CPROVER_requires(self == &g_C && callbacks == &g_head && (g_head == NULL || (g_head == &g_N && g_N.prev_ == &g_head)))
/* the node is not linked; the list is empty or its first node's back link is the head cell */
/* pushed at the front: head -> self -> old first; back links are the addresses of the forward cells */
__CPROVER_ensures(g_head == self && self->prev_ == &g_head && self->next_ == __CPROVER_old(g_head))
__CPROVER_ensures(__CPROVER_old(g_head) == NULL || g_N.prev_ == &self->next_)
/* nothing else of the old first node changes */
__CPROVER_ensures(g_N.next_ == __CPROVER_old(g_N.next_) && g_N.is_removed_ == __CPROVER_old(g_N.is_removed_) &&
                  g_N.callback_finished_executing_ == __CPROVER_old(g_N.callback_finished_executing_))
__CPROVER_ensures(self->is_removed_ == __CPROVER_old(self->is_removed_) && self->callback_finished_executing_ == __CPROVER_old(self->callback_finished_executing_))
__CPROVER_assigns(g_head, g_C.next_, g_C.prev_, g_N.prev_)
//@LIFT body
#endif

#ifdef U_REMOVE_THIS
//@FUNC
bool remove_this_callback(struct stop_callback_base *self)
__CPROVER_requires(self == &g_C && (self->prev_ == NULL || ((self->prev_ == &g_head || self->prev_ == &g_P.next_) && *self->prev_ == self)))
/* either not linked (prev_ == NULL) or locally well linked */
__CPROVER_requires(self->next_ == NULL || (self->next_ == &g_N && g_N.prev_ == &self->next_))
/* true <=> it was linked; then predecessor cell and successor are joined */
__CPROVER_ensures(__CPROVER_return_value == (__CPROVER_old(self->prev_) != NULL))
__CPROVER_ensures(__CPROVER_return_value ==> (*__CPROVER_old(self->prev_) == __CPROVER_old(self->next_) &&
                  (__CPROVER_old(self->next_) == NULL || g_N.prev_ == __CPROVER_old(self->prev_))))
/* false: nothing changed */
__CPROVER_ensures(!__CPROVER_return_value ==> (g_head == __CPROVER_old(g_head) && g_P.next_ == __CPROVER_old(g_P.next_) && g_N.prev_ == __CPROVER_old(g_N.prev_)))
/* the cell that did not precede the node is untouched, and so is everything else of the neighbours */
__CPROVER_ensures(__CPROVER_old(self->prev_) == &g_head || g_head == __CPROVER_old(g_head))
__CPROVER_ensures(__CPROVER_old(self->prev_) == &g_P.next_ || g_P.next_ == __CPROVER_old(g_P.next_))
__CPROVER_ensures(g_N.next_ == __CPROVER_old(g_N.next_) && g_P.prev_ == __CPROVER_old(g_P.prev_))
__CPROVER_assigns(g_head, g_P.next_, g_N.prev_)
//@LIFT body
#endif

static struct stop_callback_base *pick(void)
{
  uint8_t c = nondet_u8();
  return c == 0 ? NULL : c == 1 ? &g_P : c == 2 ? &g_C : c == 3 ? &g_N : g_far;
}
static struct stop_callback_base **pick_cell(void)
{
  uint8_t c = nondet_u8();
  return c == 0 ? NULL : c == 1 ? &g_head : c == 2 ? &g_P.next_ : c == 3 ? &g_C.next_ : &g_N.next_;
}
static bool g_flag_a, g_flag_b;
static void havoc_node(struct stop_callback_base *n)
{
  n->next_ = pick();
  n->prev_ = pick_cell();
  n->is_removed_ = nondet_bool() ? &g_flag_a : NULL;
  n->callback_finished_executing_ = nondet_bool();
  n->g_exec = 0;
  n->g_dead = false;
}

void harness(void)
{
  static struct stop_callback_base far_node;
  g_far = &far_node;
  g_head = pick();
  havoc_node(&g_P);
  havoc_node(&g_C);
  havoc_node(&g_N);
#ifdef U_ADD_THIS
  struct stop_callback_base *h0 = g_head;
  add_this_callback(&g_C, &g_head);
  if (h0 == NULL) VX_REACH("into_empty"); else VX_REACH("before_first");
#endif
#ifdef U_REMOVE_THIS
  struct stop_callback_base **p0 = g_C.prev_;
  struct stop_callback_base *n0 = g_C.next_;
  bool r = remove_this_callback(&g_C);
  if (!r) VX_REACH("not_linked");
  if (r && p0 == &g_head && n0 == NULL) VX_REACH("only_node");
  if (r && p0 == &g_head && n0 != NULL) VX_REACH("first_of_many");
  if (r && p0 == &g_P.next_ && n0 != NULL) VX_REACH("middle");
  if (r && p0 == &g_P.next_ && n0 == NULL) VX_REACH("last");
#endif
}
