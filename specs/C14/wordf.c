/* C14 unit 1 and the lemma harnesses of unit 2 -- stop_state::state_: word layout, predicates (F), rely/guarantee lemmas */
#include "stop.h"

/* the constants pika uses, lifted from stop_token.hpp as #defines */
//@LIFT consts

/* word predicates (lifted) */
static bool is_locked(uint64_t state)
//@LIFT is_locked
static bool stop_requested(uint64_t state)
//@LIFT stop_requested_w
static bool stop_possible(uint64_t state)
//@LIFT stop_possible_w

/* a strong CAS on a private word, for the L8 lemma */
static bool lemma_cas(uint64_t *p, uint64_t expected, uint64_t desired)
{
  if (*p == expected) { *p = desired; return true; }
  return false;
}
#define WIN(o, n) (!W_STOP(o) && W_STOP(n))

void harness(void)
{
#ifdef U_LAYOUT
  /* F: the four fields are disjoint and exhaustive, flags are single bits, increments are the units of their fields */
  VX_ASSERT((token_ref_mask & stop_requested_flag) == 0 && (token_ref_mask & source_ref_mask) == 0 &&
            (token_ref_mask & locked_flag) == 0 && (stop_requested_flag & source_ref_mask) == 0 &&
            (stop_requested_flag & locked_flag) == 0 && (source_ref_mask & locked_flag) == 0, "fields pairwise disjoint");
  VX_ASSERT((token_ref_mask | stop_requested_flag | source_ref_mask | locked_flag) == 0xffffffffffffffffull, "fields exhaustive");
  VX_ASSERT(token_ref_mask == 0x7fffffffull && stop_requested_flag == S_STOPBIT && source_ref_mask == (0x7fffffffull << 32) &&
            locked_flag == S_LOCKBIT, "fields are where the property statement puts them (0-30, 31, 32-62, 63)");
  VX_ASSERT(token_ref_increment == S_TOK_ONE && source_ref_increment == S_SRC_ONE, "increments are the lowest bit of their field");
  uint64_t w = nondet_u64();
  VX_ASSERT(w == W_MAKE(W_TOK(w), W_STOP(w), W_SRC(w), W_LOCK(w)), "spec view is a bijection");
  VX_ASSERT(W_TOK(w) == (w & token_ref_mask) && W_SRC(w) == ((w & source_ref_mask) >> 32) &&
            W_STOP(w) == ((w & stop_requested_flag) != 0) && W_LOCK(w) == ((w & locked_flag) != 0), "spec view == lifted masks");
  VX_REACH("layout");
#endif
#ifdef U_PREDICATES
  uint64_t w = nondet_u64();
  bool rq = stop_requested(w), ps = stop_possible(w), lk = is_locked(w);
  VX_ASSERT(rq == (W_STOP(w) != 0), "stop_requested(w) <=> stop bit");
  VX_ASSERT(ps == (W_STOP(w) != 0 || W_SRC(w) != 0), "stop_possible(w) <=> stop bit set or sources != 0");
  VX_ASSERT(lk == (W_LOCK(w) != 0), "is_locked(w) <=> lock bit");
  if (rq) VX_REACH("requested"); else VX_REACH("not_requested");
  if (ps && !rq) VX_REACH("possible_by_source");
  if (!ps) VX_REACH("impossible");
  if (lk) VX_REACH("locked");
#endif
#ifdef U_RG_LEMMAS
  /* (a) the rely is transitive: any number of environment steps is one rely step */
  uint64_t a = nondet_u64(), b = nondet_u64(), c = nondet_u64();
  bool hA = nondet_bool(), hB = nondet_bool();
  unsigned tA = nondet_uint(), tB = nondet_uint(), sA = nondet_uint(), sB = nondet_uint();
  if (RELY_G(a, b, hA, tA, sA) && RELY_G(b, c, hA, tA, sA))
  {
    VX_ASSERT(RELY_G(a, c, hA, tA, sA), "rely transitive");
    VX_REACH("rely_chain");
  }
  /* (b) guarantee of A within rely of B, under the ledger/mutual-exclusion invariant of the two agents */
  if (tA <= 1 && tB <= 1 && sA <= 1 && sB <= 1 && !(hA && hB) && (!(hA || hB) || W_LOCK(a)) &&
      W_TOK(a) >= (uint64_t) tA + tB && W_SRC(a) >= (uint64_t) sA + sB && GUAR_G(a, b, hA, tA, sA) && W_INV(b))
  {
    VX_ASSERT(RELY_G(a, b, hB, tB, sB), "guarantee of one agent is admissible interference for any other agent");
    VX_REACH("guar_in_rely");
  }
  /* (c) L8: a step that wins (stop bit 0 -> 1) can never be followed, after any interference, by another winning step */
  uint64_t o1 = nondet_u64(), n1 = nondet_u64(), o2 = nondet_u64(), n2 = nondet_u64();
  if (WIN(o1, n1) && W_STOP(o2) >= W_STOP(n1))
  {
    VX_ASSERT(!WIN(o2, n2), "L8: at most one request_stop wins in any history");
    VX_REACH("l8_history");
  }
  /* (d) two steps prepared from the same observed word cannot both win */
  uint64_t word = nondet_u64(), obs = word;
  if (!W_STOP(obs))
  {
    bool w1 = lemma_cas(&word, obs & ~S_LOCKBIT, obs | S_STOPBIT | S_LOCKBIT);
    bool w2 = lemma_cas(&word, obs & ~S_LOCKBIT, obs | S_STOPBIT | S_LOCKBIT);
    VX_ASSERT(!(w1 && w2), "L8: two CAS steps from the same word cannot both win");
    if (w1) VX_REACH("l8_first_wins");
  }
#endif
}
