exec(open('/verif/specs/C17/deque_spec.py').read()); UNITS = DEQUE_UNITS; META = DEQUE_META
