exec(open('/verif/specs/C01/hops_spec.py').read()); UNITS = HOPS_UNITS; META = HOPS_META
