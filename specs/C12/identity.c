/* C12 -- a task's identity (the worker-local "current task" pointer, coroutine_self::local_self()) is the same after a
 * yield/suspension as before, EVEN WHEN THE TASK RESUMES ON A DIFFERENT WORKER.  (Added after seeded change C12-1.)
 * thread_local storage is modelled as one slot per worker, selected by the ghost g_worker = the OS thread the code is
 * currently running on; the context switch stub may change g_worker (migration by stealing). */
#include "vx.h"
struct coroutine_self { struct coroutine_self *next_self_; int pimpl_; };
struct rsoe { RSOE_MEMBERS };                        /* coroutine_self::reset_self_on_exit (members lifted below) */
#define NWORKERS 2
static struct coroutine_self *vx_tls[NWORKERS];     /* static thread_local coroutine_self* local_self_ -- per worker */
static unsigned g_worker;                           /* the worker this code is running on right now */
static unsigned g_worker0;                          /* the worker the task suspended on */
static struct coroutine_self *g_self, *g_seen_at_switch, *g_resume_slot;
static long g_switches;

/* coroutine_self::local_self(): returns a reference to THIS thread's slot (lifted body uses `static thread_local`) */
static struct coroutine_self **local_self(void)
//@LIFT local_self
static void set_self(struct coroutine_self *self)
//@LIFT set_self
static struct coroutine_self *get_self(void)
//@LIFT get_self
static void rsoe_ctor(struct rsoe *self_guard, struct coroutine_self *self)
//@LIFT rsoe_ctor
static void rsoe_dtor(struct rsoe *self_guard)
//@LIFT rsoe_dtor

static void pimpl_bind_result(int *p, int arg) { }
static int *pimpl_args(int *p) { return p; }
/* context_base::yield(): switch back to the scheduler; the task is later resumed by whichever worker picks it up */
static void pimpl_yield(int *p)
{
  VX_ASSERT(g_switches == 0, "one context switch per yield");
  g_switches++;
  g_seen_at_switch = vx_tls[g_worker];      /* what the worker we are leaving sees as its current task */
  /* ... the scheduler and other tasks run; between phases a worker's slot is back to what it was (unit recycle.trampoline) ... */
  g_worker = nondet_uint();
  VX_ASSUME(g_worker < NWORKERS);           /* resumed on any worker of the pool */
  vx_tls[g_worker] = (struct coroutine_self *) 0;   /* the resuming worker's slot holds its own outer context (none) */
  g_resume_slot = vx_tls[g_worker];
}

//@FUNC
int yield_impl(struct coroutine_self *self, int arg)
__CPROVER_requires(self == g_self && self->pimpl_ != 0 && g_worker < NWORKERS && g_worker == g_worker0 && vx_tls[g_worker] == self && g_switches == 0)
/* while the task is switched out, the worker it left no longer regards it as its current task */
__CPROVER_ensures(g_switches == 1 && g_seen_at_switch == self->next_self_)
/* after resumption the task is the current task of the worker it is NOW running on ... */
__CPROVER_ensures(vx_tls[g_worker] == self)
/* ... and the worker it migrated away from was not handed its identity */
__CPROVER_ensures(g_worker == g_worker0 || vx_tls[g_worker0] != self)
__CPROVER_assigns(g_switches, g_seen_at_switch, g_resume_slot, g_worker, __CPROVER_object_whole(vx_tls))
//@LIFT yield_impl

void harness(void)
{
  struct coroutine_self outer, me;
  outer.next_self_ = 0; outer.pimpl_ = 1;
  me.next_self_ = nondet_bool() ? &outer : (struct coroutine_self *) 0; me.pimpl_ = 1;
  g_self = &me;
  g_worker = nondet_uint(); g_worker0 = g_worker;
  vx_tls[0] = vx_tls[1] = 0;
  g_switches = 0; g_seen_at_switch = 0; g_resume_slot = 0;
  if (g_worker < NWORKERS) vx_tls[g_worker] = &me;
  yield_impl(&me, nondet_int());
  if (g_worker != g_worker0) VX_REACH("resumed_on_another_worker"); else VX_REACH("resumed_on_the_same_worker");
}
