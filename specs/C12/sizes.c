/* C12 -- "each task runs on its own stack of the size configured for its stack-size class": the chain that carries the four
 * configured sizes from the resolved configuration to the place where a stack is sized
 *   runtime_configuration::get_stack_size(class)            [U_RTCFG_GET]   cached field of THAT class
 *   thread_manager::thread_manager (fragment)               [U_TM_FRAGMENT] reads the four classes, hands them to
 *                                                                           thread_queue_init_parameters in ITS parameter order
 *   thread_queue_init_parameters::thread_queue_init_parameters [U_TQIP_CTOR] parameter k -> member of the same name
 *   scheduler_base::get_stack_size(class)                   [U_SB_GET]      member of THAT class (current = the caller's class)
 * All four are loop free, full domain (F contracts).  The four sizes are kept apart by giving them symbolic, unconstrained
 * values: a swap of two of them is visible whenever the values differ.  (written by main, round 10: pro-active extension) */
#include "vx.h"
enum { thread_stacksize_unknown = -1, thread_stacksize_small_ = 1, thread_stacksize_medium = 2, thread_stacksize_large = 3,
       thread_stacksize_huge = 4, thread_stacksize_nostack = 5, thread_stacksize_current = 6,
       thread_stacksize_default_ = 1, thread_stacksize_minimal = 1, thread_stacksize_maximal = 4 };
#define VX_PTRDIFF_MAX ((ptrdiff_t) 0x7fffffffffffffffLL)
#define CLASS_OK(c) ((c) == thread_stacksize_small_ || (c) == thread_stacksize_medium || (c) == thread_stacksize_large || (c) == thread_stacksize_huge || (c) == thread_stacksize_nostack)

#ifdef U_RTCFG_GET
struct rtcfg { ptrdiff_t small_stacksize, medium_stacksize, large_stacksize, huge_stacksize; };
#define SIZE_OF_CLASS(self, c) ((c) == thread_stacksize_medium ? (self)->medium_stacksize : (c) == thread_stacksize_large ? (self)->large_stacksize : \
                                (c) == thread_stacksize_huge ? (self)->huge_stacksize : (c) == thread_stacksize_nostack ? VX_PTRDIFF_MAX : (self)->small_stacksize)
//@FUNC
ptrdiff_t rtcfg_get_stack_size(const struct rtcfg *self, int8_t stacksize)
__CPROVER_requires(CLASS_OK(stacksize))
/* the size cached for exactly this class (nostack: "unlimited") */
__CPROVER_ensures(__CPROVER_return_value == SIZE_OF_CLASS(self, stacksize))
__CPROVER_assigns()
//@LIFT body
#endif

#ifdef U_TM_FRAGMENT
struct rtcfg { ptrdiff_t sz[8]; };
static ptrdiff_t rtcfg_get_stack_size(const struct rtcfg *r, int8_t c) { VX_ASSERT(c >= 1 && c <= 5, "a stack-size class"); return r->sz[c]; }
struct tqip { ptrdiff_t small_stacksize_, medium_stacksize_, large_stacksize_, huge_stacksize_; long built; };
static struct tqip thread_queue_init;
/* the constructor's parameter list as declared (positions 10..13 are small, medium, large, huge: unit sizes.tqip.ctor) */
static void tqip_make(ptrdiff_t small_, ptrdiff_t medium, ptrdiff_t large, ptrdiff_t huge)
{
  thread_queue_init.small_stacksize_ = small_; thread_queue_init.medium_stacksize_ = medium;
  thread_queue_init.large_stacksize_ = large; thread_queue_init.huge_stacksize_ = huge;
  if (thread_queue_init.built < 2) thread_queue_init.built++;
}
struct tm { struct rtcfg *rtcfg_; };
//@FUNC
void tm_ctor_fragment(struct tm *self)
__CPROVER_requires(thread_queue_init.built == 0)
/* the parameters every scheduler of every pool is built with carry, per class, the configured size of that class */
__CPROVER_ensures(thread_queue_init.built == 1)
__CPROVER_ensures(thread_queue_init.small_stacksize_ == self->rtcfg_->sz[thread_stacksize_small_] && thread_queue_init.medium_stacksize_ == self->rtcfg_->sz[thread_stacksize_medium])
__CPROVER_ensures(thread_queue_init.large_stacksize_ == self->rtcfg_->sz[thread_stacksize_large] && thread_queue_init.huge_stacksize_ == self->rtcfg_->sz[thread_stacksize_huge])
__CPROVER_assigns(thread_queue_init)
{
//@LIFT body
}
#endif

#ifdef U_TQIP_CTOR
struct tqip { int64_t max_thread_count_, min_tasks_to_steal_pending_, min_tasks_to_steal_staged_, min_add_new_count_, max_add_new_count_,
              min_delete_count_, max_delete_count_, max_terminated_threads_, init_threads_count_; double max_idle_backoff_time_;
              ptrdiff_t small_stacksize_, medium_stacksize_, large_stacksize_, huge_stacksize_, nostack_stacksize_; };
//@FUNC
void tqip_ctor(struct tqip *self, int64_t max_thread_count, int64_t min_tasks_to_steal_pending, int64_t min_tasks_to_steal_staged,
               int64_t min_add_new_count, int64_t max_add_new_count, int64_t min_delete_count, int64_t max_delete_count,
               int64_t max_terminated_threads, int64_t init_threads_count, double max_idle_backoff_time,
               ptrdiff_t small_stacksize, ptrdiff_t medium_stacksize, ptrdiff_t large_stacksize, ptrdiff_t huge_stacksize)
/* parameter k initialises the member of the same name */
__CPROVER_ensures(self->small_stacksize_ == small_stacksize && self->medium_stacksize_ == medium_stacksize && self->large_stacksize_ == large_stacksize && self->huge_stacksize_ == huge_stacksize)
__CPROVER_ensures(self->nostack_stacksize_ == VX_PTRDIFF_MAX)
__CPROVER_ensures(self->max_thread_count_ == max_thread_count && self->min_tasks_to_steal_pending_ == min_tasks_to_steal_pending && self->min_tasks_to_steal_staged_ == min_tasks_to_steal_staged)
__CPROVER_ensures(self->min_add_new_count_ == min_add_new_count && self->max_add_new_count_ == max_add_new_count && self->min_delete_count_ == min_delete_count && self->max_delete_count_ == max_delete_count)
__CPROVER_ensures(self->max_terminated_threads_ == max_terminated_threads && self->init_threads_count_ == init_threads_count)
__CPROVER_assigns(*self)
//@LIFT body
#endif

#ifdef U_SB_GET
struct tqip { ptrdiff_t small_stacksize_, medium_stacksize_, large_stacksize_, huge_stacksize_; };
struct sched { struct tqip thread_queue_init_; };
static int8_t g_self_class; static long g_self_class_calls;
/* threads::detail::get_self_stacksize_enum(): the stack-size class of the CALLING task (never `current`) */
static int8_t get_self_stacksize_enum(void) { if (g_self_class_calls < 2) g_self_class_calls++; return g_self_class; }
#define EFFECTIVE(c) ((c) == thread_stacksize_current ? g_self_class : (c))
#define MEMBER_OF_CLASS(self, c) ((c) == thread_stacksize_small_ ? (self)->thread_queue_init_.small_stacksize_ : (c) == thread_stacksize_medium ? (self)->thread_queue_init_.medium_stacksize_ : \
                                  (c) == thread_stacksize_large ? (self)->thread_queue_init_.large_stacksize_ : (c) == thread_stacksize_huge ? (self)->thread_queue_init_.huge_stacksize_ : VX_PTRDIFF_MAX)
//@FUNC
ptrdiff_t sb_get_stack_size(const struct sched *self, int8_t stacksize)
__CPROVER_requires((CLASS_OK(stacksize) || stacksize == thread_stacksize_current) && CLASS_OK(g_self_class))
/* the size of exactly this class; `current` means the class of the spawning task */
__CPROVER_ensures(__CPROVER_return_value == MEMBER_OF_CLASS(self, EFFECTIVE(stacksize)))
__CPROVER_assigns(g_self_class_calls)
//@LIFT body
#endif

void harness(void)
{
#ifdef U_RTCFG_GET
  struct rtcfg r; r.small_stacksize = nondet_ptrdiff(); r.medium_stacksize = nondet_ptrdiff(); r.large_stacksize = nondet_ptrdiff(); r.huge_stacksize = nondet_ptrdiff();
  int8_t c = nondet_i8();
  ptrdiff_t s = rtcfg_get_stack_size(&r, c);
  if (c == thread_stacksize_small_) VX_REACH("small"); if (c == thread_stacksize_medium) VX_REACH("medium");
  if (c == thread_stacksize_large) VX_REACH("large"); if (c == thread_stacksize_huge) VX_REACH("huge"); if (c == thread_stacksize_nostack) VX_REACH("nostack");
#endif
#ifdef U_TM_FRAGMENT
  static struct rtcfg r; struct tm t; t.rtcfg_ = &r;
  for (int i = 0; i < 8; i++) r.sz[i] = nondet_ptrdiff();
  thread_queue_init.built = 0;
  tm_ctor_fragment(&t);
  VX_REACH("built");
  if (r.sz[1] != r.sz[2] && r.sz[2] != r.sz[3] && r.sz[3] != r.sz[4]) VX_REACH("distinct_sizes");
#endif
#ifdef U_TQIP_CTOR
  struct tqip p;
  tqip_ctor(&p, nondet_i64(), nondet_i64(), nondet_i64(), nondet_i64(), nondet_i64(), nondet_i64(), nondet_i64(), nondet_i64(), nondet_i64(), 0.0,
            nondet_ptrdiff(), nondet_ptrdiff(), nondet_ptrdiff(), nondet_ptrdiff());
  VX_REACH("constructed");
#endif
#ifdef U_SB_GET
  struct sched s; s.thread_queue_init_.small_stacksize_ = nondet_ptrdiff(); s.thread_queue_init_.medium_stacksize_ = nondet_ptrdiff();
  s.thread_queue_init_.large_stacksize_ = nondet_ptrdiff(); s.thread_queue_init_.huge_stacksize_ = nondet_ptrdiff();
  g_self_class = nondet_i8(); g_self_class_calls = 0;
  int8_t c = nondet_i8();
  ptrdiff_t sz = sb_get_stack_size(&s, c);
  if (c == thread_stacksize_current) VX_REACH("current_is_the_callers_class");
  if (c == thread_stacksize_small_) VX_REACH("small"); if (c == thread_stacksize_medium) VX_REACH("medium");
  if (c == thread_stacksize_large) VX_REACH("large"); if (c == thread_stacksize_huge) VX_REACH("huge"); if (c == thread_stacksize_nostack) VX_REACH("nostack");
#endif
}
