/* C12 unit group 3a -- a recycled thread_data starts clean:  thread_data::rebind_base  ==  thread_data::thread_data
 * on every per-task field (I contract with full frame; equivalence of two lifted bodies).
 *
 * Lifted: threading_base/src/thread_data.cpp  thread_data::thread_data (mem-initialiser list + body), rebind_base,
 *         free_thread_exit_callbacks;  thread_data.hpp get_stack_size;  coroutines/thread_id_type.hpp
 *         thread_data_reference_counting constructor (mem-initialiser list).
 * Hand written: the C structs, the forward_list / spinlock / thread_state stand-ins, contract, harness. */
#include "vx.h"

enum { thread_schedule_state_unknown = 0, thread_schedule_state_active = 1, thread_schedule_state_pending = 2,
       thread_schedule_state_suspended = 3, thread_schedule_state_terminated = 4, thread_schedule_state_staged = 5,
       thread_schedule_state_pending_do_not_schedule = 6, thread_schedule_state_pending_boost = 7 };
enum { thread_restart_state_unknown = 0, thread_restart_state_signaled = 1, thread_restart_state_timeout = 2,
       thread_restart_state_terminate = 3, thread_restart_state_abort = 4 };
enum { thread_stacksize_unknown = -1, thread_stacksize_small_ = 1, thread_stacksize_medium = 2, thread_stacksize_large = 3,
       thread_stacksize_huge = 4, thread_stacksize_nostack = 5, thread_stacksize_current = 6 };
enum { thread_id_addref_yes = 0, thread_id_addref_no = 1 };

/* combined_tagged_state<thread_schedule_state, thread_restart_state>: (state, state_ex, tag); the two-argument constructor
 * leaves the tag 0 (bit packing is C01's subject) */
struct thread_state { int8_t state; int8_t state_ex; int64_t tag; };
static struct thread_state thread_state_make(int8_t s, int8_t ex) { struct thread_state r; r.state = s; r.state_ex = ex; r.tag = 0; return r; }
#define TS_EQ(a, b) ((a).state == (b).state && (a).state_ex == (b).state_ex && (a).tag == (b).tag)

/* std::forward_list<function<void()>>: abstracted to its length (saturating 0,1,2) */
struct flist { int len; };
static void flist_default_ctor(struct flist *l) { l->len = 0; }
static bool flist_empty(struct flist *l) { return l->len == 0; }
static void flist_clear(struct flist *l) { l->len = 0; }

struct scheduler_base { int unused; };
struct thread_init_data { int priority; int stacksize; int8_t initial_state; struct scheduler_base *scheduler_base; };

struct thread_data
{
  long count_;                       /* thread_data_reference_counting::count_ */
  struct thread_state current_state_; /* std::atomic<thread_state> (A-SC; the object is not shared while it is rebound) */
  int priority_;
  bool requested_interrupt_, enabled_interrupt_, ran_exit_funcs_, is_stackless_;
  struct flist exit_funcs_;
  struct scheduler_base *scheduler_base_;
  size_t last_worker_thread_num_;    /* std::atomic<std::size_t> */
  ptrdiff_t stacksize_;
  int stacksize_enum_;
  void *queue_;
};

/* spinlock_pool::spinlock_for(this) + std::lock_guard: ghost 'held' bit, balance checked */
static bool g_lock_held;
static long g_locks;
static void vx_lock(void) { VX_ASSERT(!g_lock_held, "spinlock taken twice"); g_lock_held = true; if (g_locks < 2) g_locks++; }
static void vx_unlock(void) { VX_ASSERT(g_lock_held, "unlock of a spinlock that is not held"); g_lock_held = false; }

void refcount_ctor(struct thread_data *self, int addref)
//@LIFT refcount_ctor

ptrdiff_t get_stack_size(struct thread_data *self)
//@LIFT get_stack_size

void free_thread_exit_callbacks(struct thread_data *self)
//@LIFT free_thread_exit_callbacks

void thread_data_ctor(struct thread_data *self, struct thread_init_data *init_data, void *queue, ptrdiff_t stacksize, bool is_stackless, int addref)
//@LIFT ctor

/* what the constructor makes of the same init data (filled in by the harness from the lifted constructor) */
static struct thread_data g_fresh;
#define PER_TASK_EQ(a, b) (TS_EQ((a)->current_state_, (b)->current_state_) && (a)->priority_ == (b)->priority_ && \
  (a)->requested_interrupt_ == (b)->requested_interrupt_ && (a)->enabled_interrupt_ == (b)->enabled_interrupt_ && \
  (a)->ran_exit_funcs_ == (b)->ran_exit_funcs_ && (a)->exit_funcs_.len == (b)->exit_funcs_.len && \
  (a)->scheduler_base_ == (b)->scheduler_base_ && (a)->last_worker_thread_num_ == (b)->last_worker_thread_num_ && \
  (a)->stacksize_enum_ == (b)->stacksize_enum_)

//@FUNC
void rebind_base(struct thread_data *self, struct thread_init_data *init_data)
/* the object comes from the free list of its own stack size and queue (unit group 2), and its previous task has terminated
 * after running its exit callbacks (C13) */
__CPROVER_requires(self != &g_fresh && !g_lock_held && g_locks == 0)
__CPROVER_requires(self->stacksize_ == g_fresh.stacksize_ && self->queue_ == g_fresh.queue_ && self->is_stackless_ == g_fresh.is_stackless_)
__CPROVER_requires(self->stacksize_ != 0 && (self->exit_funcs_.len == 0 || self->ran_exit_funcs_))
/* the property, spelled out ... */
__CPROVER_ensures(!self->requested_interrupt_ && self->enabled_interrupt_ && !self->ran_exit_funcs_ && self->exit_funcs_.len == 0)
__CPROVER_ensures(self->current_state_.state == init_data->initial_state && self->current_state_.state_ex == thread_restart_state_signaled)
__CPROVER_ensures(self->priority_ == init_data->priority && self->scheduler_base_ == init_data->scheduler_base)
__CPROVER_ensures(self->last_worker_thread_num_ == (size_t) -1 && self->stacksize_enum_ == init_data->stacksize)
/* ... and as equivalence: field-wise what the constructor produces for the same init data */
__CPROVER_ensures(PER_TASK_EQ(self, &g_fresh))
__CPROVER_ensures(!g_lock_held)
/* frame: the identity of the object (stack size, queue, stackless-ness, reference count) is not touched */
__CPROVER_assigns(self->current_state_, self->priority_, self->requested_interrupt_, self->enabled_interrupt_, self->ran_exit_funcs_,
                  self->exit_funcs_, self->scheduler_base_, self->last_worker_thread_num_, self->stacksize_enum_, g_lock_held, g_locks)
//@LIFT rebind_base

void harness(void)
{
  struct scheduler_base sb;
  struct thread_init_data init;
  struct thread_data old;
  int some_queue;
  g_lock_held = false; g_locks = 0;
  init.priority = nondet_int(); init.stacksize = nondet_int(); init.initial_state = nondet_i8();
  init.scheduler_base = nondet_bool() ? &sb : NULL;
  VX_ASSUME(init.stacksize != thread_stacksize_current); /* PIKA_ASSERT of the constructor: resolved by the scheduler before */
  ptrdiff_t stacksize = nondet_ptrdiff();
  bool stackless = nondet_bool();
  /* a brand-new object for this init data: the lifted constructor */
  g_fresh.count_ = nondet_long(); g_fresh.current_state_.state = nondet_i8(); g_fresh.current_state_.state_ex = nondet_i8();
  g_fresh.current_state_.tag = nondet_i64(); g_fresh.priority_ = nondet_int(); g_fresh.requested_interrupt_ = nondet_bool();
  g_fresh.enabled_interrupt_ = nondet_bool(); g_fresh.ran_exit_funcs_ = nondet_bool(); g_fresh.is_stackless_ = nondet_bool();
  g_fresh.exit_funcs_.len = nondet_int(); g_fresh.scheduler_base_ = NULL; g_fresh.last_worker_thread_num_ = nondet_size();
  g_fresh.stacksize_ = nondet_ptrdiff(); g_fresh.stacksize_enum_ = nondet_int(); g_fresh.queue_ = NULL;
  thread_data_ctor(&g_fresh, &init, &some_queue, stacksize, stackless, thread_id_addref_yes);
  /* a used one: whatever the previous task left behind */
  old.count_ = nondet_long();
  old.current_state_.state = nondet_i8(); old.current_state_.state_ex = nondet_i8(); old.current_state_.tag = nondet_i64();
  old.priority_ = nondet_int(); old.requested_interrupt_ = nondet_bool(); old.enabled_interrupt_ = nondet_bool();
  old.ran_exit_funcs_ = nondet_bool(); old.is_stackless_ = stackless;
  old.exit_funcs_.len = nondet_int();
  VX_ASSUME(old.exit_funcs_.len >= 0 && old.exit_funcs_.len <= 2);
  old.scheduler_base_ = nondet_bool() ? &sb : NULL; old.last_worker_thread_num_ = nondet_size();
  old.stacksize_ = stacksize; old.stacksize_enum_ = nondet_int(); old.queue_ = &some_queue;
  bool was_interrupted = old.requested_interrupt_, had_callbacks = old.exit_funcs_.len > 0, tag_nonzero = old.current_state_.tag != 0;
  rebind_base(&old, &init);
  VX_REACH("rebound");
  if (was_interrupted) VX_REACH("previous_task_was_interrupted");
  if (had_callbacks) VX_REACH("previous_task_had_exit_callbacks");
  if (tag_nonzero) VX_REACH("previous_state_tag_nonzero");
}
