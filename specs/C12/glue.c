/* C12 unit group 3c -- thread_data_stackful: the glue between thread_data and its coroutine on (re)use.
 *   rebind() resets the thread_data part (rebind_base, unit recycle.rebind_base) and the coroutine part (coroutine_impl::rebind,
 *   unit recycle.trampoline) exactly once each, and hands the coroutine the SAME identity the constructor hands it: the
 *   object itself; the constructor gives the coroutine the stack size the object was created for.
 *
 * Lifted: threading_base/thread_data_stackful.hpp  thread_data_stackful::thread_data_stackful (mem-initialiser list + body),
 *         rebind, this_.   Hand written: recording stubs for the two bases' functions, contract, harness. */
#include "vx.h"
enum { thread_id_addref_yes = 0, thread_id_addref_no = 1 };
struct functor { int token; };
struct thread_init_data { struct functor func; };
struct coroutine { void *id; int func_token; ptrdiff_t stack_size; bool ready; };
struct agent { struct coroutine *impl; };
struct tds { struct coroutine coroutine_; struct agent agent_; }; /* thread_data_stackful (thread_data base: ghost only) */
typedef void *thread_id;
static thread_id thread_id_make(struct tds *p) { return p; }

/* ---- ghost ---- */
static long g_base, g_co;                 /* calls into the thread_data part / the coroutine part (saturating) */
static struct tds *g_base_self; static struct thread_init_data *g_base_init; static void *g_base_queue;
static ptrdiff_t g_base_stacksize; static bool g_base_stackless; static int g_base_addref;
#define GHOST g_base, g_co, g_base_self, g_base_init, g_base_queue, g_base_stacksize, g_base_stackless, g_base_addref
#define BUMP(c) do { if ((c) < 2) (c)++; } while (0)

static void thread_data_ctor(struct tds *self, struct thread_init_data *init, void *queue, ptrdiff_t stacksize, bool stackless, int addref)
{ BUMP(g_base); g_base_self = self; g_base_init = init; g_base_queue = queue; g_base_stacksize = stacksize; g_base_stackless = stackless; g_base_addref = addref; }
static void thread_data_rebind_base(struct tds *self, struct thread_init_data *init)
{ BUMP(g_base); g_base_self = self; g_base_init = init; }
static struct coroutine coroutine_ctor(struct functor f, thread_id id, ptrdiff_t stack_size)
{ struct coroutine c; BUMP(g_co); c.id = id; c.func_token = f.token; c.stack_size = stack_size; c.ready = true; return c; }
static void coroutine_rebind(struct coroutine *c, struct functor f, thread_id id)
{ BUMP(g_co); c->id = id; c->func_token = f.token; c->ready = true; }
static bool coroutine_is_ready(struct coroutine *c) { return c->ready; }
static struct coroutine *coroutine_impl_of(struct coroutine *c) { return c; }
static struct agent agent_ctor(struct coroutine *impl) { struct agent a; a.impl = impl; return a; }

struct tds *this_(struct tds *self)
//@LIFT this_

void tds_ctor(struct tds *self, struct thread_init_data *init_data, void *queue, ptrdiff_t stacksize, int addref)
//@LIFT ctor

static struct tds g_fresh; /* a newly constructed object for the same init data (lifted constructor, run by the harness) */
//@FUNC
void tds_rebind(struct tds *self, struct thread_init_data *init_data)
__CPROVER_requires(g_base == 0 && g_co == 0 && self != &g_fresh && g_fresh.coroutine_.id == (void *) &g_fresh)
/* both parts are reset, once each, for this object and this init data */
__CPROVER_ensures(g_base == 1 && g_co == 1 && g_base_self == self && g_base_init == init_data)
/* identity: the coroutine is told it belongs to this very object -- as the constructor tells a new one */
__CPROVER_ensures(self->coroutine_.id == (void *) self && self->coroutine_.func_token == g_fresh.coroutine_.func_token)
/* the stack the object was created with stays its stack */
__CPROVER_ensures(self->coroutine_.stack_size == __CPROVER_old(self->coroutine_.stack_size) && self->agent_.impl == __CPROVER_old(self->agent_.impl))
__CPROVER_assigns(GHOST, self->coroutine_.id, self->coroutine_.func_token, self->coroutine_.ready)
//@LIFT rebind

void harness(void)
{
  struct thread_init_data init;
  struct tds old;
  int some_queue;
  g_base = 0; g_co = 0; g_base_self = NULL; g_base_init = NULL; g_base_queue = NULL; g_base_stacksize = 0; g_base_stackless = true;
  g_base_addref = 0;
  init.func.token = nondet_int();
  ptrdiff_t stacksize = nondet_ptrdiff();
  g_fresh.coroutine_.id = NULL; g_fresh.coroutine_.func_token = nondet_int(); g_fresh.coroutine_.stack_size = nondet_ptrdiff();
  g_fresh.coroutine_.ready = false; g_fresh.agent_.impl = NULL;
  tds_ctor(&g_fresh, &init, &some_queue, stacksize, thread_id_addref_yes);
  /* the constructor: thread_data part as a stackful (not stackless) object of the requested size; coroutine with the
   * object's own identity and that same stack size; the agent refers to the object's own coroutine */
  VX_ASSERT(g_base == 1 && g_co == 1 && g_base_self == &g_fresh && g_base_init == &init, "constructor initialises both parts once");
  VX_ASSERT(g_base_queue == &some_queue && g_base_stacksize == stacksize && !g_base_stackless && g_base_addref == thread_id_addref_yes, "thread_data part gets queue, stack size, stackful, addref");
  VX_ASSERT(g_fresh.coroutine_.id == (void *) &g_fresh && g_fresh.coroutine_.stack_size == stacksize, "the coroutine gets the object's identity and the requested stack size");
  VX_ASSERT(g_fresh.agent_.impl == &g_fresh.coroutine_, "the execution agent refers to the object's own coroutine");
  /* a used object */
  old.coroutine_.id = nondet_bool() ? NULL : (void *) &some_queue; old.coroutine_.func_token = nondet_int();
  old.coroutine_.stack_size = stacksize; old.coroutine_.ready = nondet_bool(); old.agent_.impl = &old.coroutine_;
  g_base = 0; g_co = 0;
  tds_rebind(&old, &init);
  VX_REACH("rebound");
}
