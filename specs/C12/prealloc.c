/* C12 -- thread_queue::on_start_thread (schedulers/thread_queue.hpp): the task objects a queue pre-allocates at worker start go
 * onto a free list ("heap") without passing through recycle_thread.  create_thread_object hands an object of heap X to a task that
 * asked for the configured stack size of X without looking at the object's own size (units heap.*), so the free-list invariant
 * "every object on heap X has the stack size configured for X" has to be ESTABLISHED here as well: a pre-allocated object must be
 * created with the very size its heap stands for (the runtime-configured pika.stacks.small_size, not a compile-time constant).
 * (written by main after seeded change C12-5 was missed; I contract, symbolic count, all configurations of the sizes) */
#include "vx.h"
enum { thread_id_addref_yes = 0, thread_id_addref_no = 1 };
/* compile-time DEFAULTS of the stack sizes (config/threads_stack.hpp; Linux x86-64 release values).  The sizes a queue is configured
 * with (pika.stacks.*_size, thread_queue_init_parameters) are arbitrary and need not equal them. */
#define PIKA_SMALL_STACK_SIZE 0x10000
#define PIKA_MEDIUM_STACK_SIZE 0x20000
#define PIKA_LARGE_STACK_SIZE 0x200000
#define PIKA_HUGE_STACK_SIZE 0x2000000
struct thread_data { ptrdiff_t stacksize_; bool stack_initialised; int addref; };
struct thread_init_data { int unused; };
struct params { ptrdiff_t small_stacksize_, medium_stacksize_, large_stacksize_, huge_stacksize_, nostack_stacksize_; int64_t init_threads_count_; };
struct heap { int unused; };
struct mutex { bool locked; };
struct thread_queue
{
  struct params parameters_;
  struct heap thread_heap_small_, thread_heap_medium_, thread_heap_large_, thread_heap_huge_, thread_heap_nostack_;
  struct mutex mtx_;
};
static struct thread_queue *g_q;
static struct thread_data g_new; static bool g_new_live;   /* the object created in this iteration, not yet stored */
static int64_t g_pushes;

#define SIZE_OF_HEAP(q, h) ((h) == &(q)->thread_heap_small_ ? (q)->parameters_.small_stacksize_ : (h) == &(q)->thread_heap_medium_ ? (q)->parameters_.medium_stacksize_ : \
  (h) == &(q)->thread_heap_large_ ? (q)->parameters_.large_stacksize_ : (h) == &(q)->thread_heap_huge_ ? (q)->parameters_.huge_stacksize_ : (q)->parameters_.nostack_stacksize_)
#define IS_HEAP_OF(q, h) ((h) == &(q)->thread_heap_small_ || (h) == &(q)->thread_heap_medium_ || (h) == &(q)->thread_heap_large_ || \
  (h) == &(q)->thread_heap_huge_ || (h) == &(q)->thread_heap_nostack_)

static void heap_reserve(struct heap *h, int64_t n) { VX_ASSERT(IS_HEAP_OF(g_q, h), "a free list of this queue"); }
static struct thread_data *create_stackful(struct thread_init_data *d, struct thread_queue *q, ptrdiff_t stacksize, int addref)
{
  VX_ASSERT(q == g_q, "the object belongs to this queue");
  VX_ASSERT(!g_new_live, "the previously created object was stored (none is leaked)");
  g_new.stacksize_ = stacksize; g_new.stack_initialised = false; g_new.addref = addref; g_new_live = true;
  return &g_new;
}
static void thread_init(struct thread_data *t) { VX_ASSERT(t == &g_new && g_new_live, "the object just created"); t->stack_initialised = true; }
static void heap_push_back(struct heap *h, struct thread_data *t)
{
  VX_ASSERT(g_q->mtx_.locked, "free lists are changed under the queue's lock");
  VX_ASSERT(IS_HEAP_OF(g_q, h) && t == &g_new && g_new_live, "the object just created goes onto a free list of this queue");
  /* the free-list invariant create_thread_object relies on */
  VX_ASSERT(t->stacksize_ == SIZE_OF_HEAP(g_q, h), "an object put on a free list has the stack size CONFIGURED for that list");
  VX_ASSERT(t->addref == thread_id_addref_no, "an object on a free list holds no reference");
  g_new_live = false; g_pushes++;
}
static void mutex_lock(struct mutex *m) { VX_ASSERT(!m->locked, "lock of a held mutex"); m->locked = true; }
static void mutex_unlock(struct mutex *m) { VX_ASSERT(m->locked, "unlock of a free mutex"); m->locked = false; }

//@FUNC
void on_start_thread(struct thread_queue *self)
__CPROVER_requires(self == g_q && !self->mtx_.locked && g_pushes == 0 && !g_new_live)
__CPROVER_ensures(!self->mtx_.locked && !g_new_live)
__CPROVER_ensures(g_pushes == (self->parameters_.init_threads_count_ > 0 ? self->parameters_.init_threads_count_ : 0))
__CPROVER_assigns(self->mtx_.locked, g_new, g_new_live, g_pushes)
//@LIFT body

void harness(void)
{
  struct thread_queue q; g_q = &q;
  q.parameters_.small_stacksize_ = nondet_ptrdiff(); q.parameters_.medium_stacksize_ = nondet_ptrdiff();
  q.parameters_.large_stacksize_ = nondet_ptrdiff(); q.parameters_.huge_stacksize_ = nondet_ptrdiff();
  q.parameters_.nostack_stacksize_ = nondet_ptrdiff(); q.parameters_.init_threads_count_ = nondet_long();
  q.mtx_.locked = false; g_pushes = 0; g_new_live = false; g_new.stacksize_ = 0; g_new.stack_initialised = false; g_new.addref = 0;
  on_start_thread(&q);
  if (g_pushes > 0) VX_REACH("objects_preallocated");
  if (g_pushes == 0) VX_REACH("nothing_preallocated");
}
