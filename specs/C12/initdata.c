/* C12 -- thread_init_data (threading_base/thread_init_data.hpp): the description of a task on its way from the spawner to the worker that
 * creates its thread object.  A staged task travels BY VALUE through queues (move constructor into thread_queue's task_description,
 * move ASSIGNMENT out of the lock-free queue of thread_queue_mc: `element = std::move(el)` in ConcurrentQueue::try_dequeue), and
 * create_thread_object picks the stack heap from data.stacksize: "each task runs on a stack of the size configured for its stack-size
 * class" needs every member -- the stack-size class in particular -- to arrive unchanged.
 * F contracts, loop free, full domain; members as in the shipped configuration (no description / parent reference / APEX).
 * (written by main after seeded change C12-8 was missed) */
#include "vx.h"
struct hint { int8_t mode; int16_t hint; };
struct tid { int func; int8_t priority; struct hint schedulehint; int8_t stacksize; int8_t initial_state; bool run_now; void *scheduler_base; };
static int fn_move(int *f) { int t = *f; *f = 0; return t; }   /* std::move of the thread function: the source is left empty */
#define SAME(a, b) ((a)->priority == (b).priority && (a)->schedulehint.mode == (b).schedulehint.mode && (a)->schedulehint.hint == (b).schedulehint.hint && \
                    (a)->stacksize == (b).stacksize && (a)->initial_state == (b).initial_state && (a)->run_now == (b).run_now && \
                    (a)->scheduler_base == (b).scheduler_base && (a)->func == (b).func)
static struct tid g_rhs0;

#ifdef U_MOVE_ASSIGN
//@FUNC
struct tid *tid_move_assign(struct tid *self, struct tid *rhs)
__CPROVER_requires(self != rhs && SAME(rhs, g_rhs0))
/* every member arrives unchanged (the function object is moved) */
__CPROVER_ensures(SAME(self, g_rhs0) && __CPROVER_return_value == self)
__CPROVER_assigns(*self, rhs->func)
//@LIFT body
#endif
#ifdef U_MOVE_CTOR
//@FUNC
void tid_move_ctor(struct tid *self, struct tid *rhs)
__CPROVER_requires(self != rhs && SAME(rhs, g_rhs0))
__CPROVER_ensures(SAME(self, g_rhs0))
__CPROVER_assigns(*self, rhs->func)
//@LIFT body
#endif

void harness(void)
{
  struct tid a, b;
  b.func = nondet_int(); b.priority = nondet_i8(); b.schedulehint.mode = nondet_i8(); b.schedulehint.hint = nondet_i16(); b.stacksize = nondet_i8();
  b.initial_state = nondet_i8(); b.run_now = nondet_bool(); b.scheduler_base = nondet_bool() ? (void *) &a : NULL;
  a.func = nondet_int(); a.priority = nondet_i8(); a.schedulehint.mode = nondet_i8(); a.schedulehint.hint = nondet_i16(); a.stacksize = nondet_i8();
  a.initial_state = nondet_i8(); a.run_now = nondet_bool(); a.scheduler_base = NULL;
  g_rhs0 = b;
#ifdef U_MOVE_ASSIGN
  tid_move_assign(&a, &b);
#else
  tid_move_ctor(&a, &b);
#endif
  VX_REACH("moved");
  if (g_rhs0.stacksize != 1) VX_REACH("a_class_other_than_small");
}
