/* C12 unit group 3b -- the coroutine trampoline hands a CLEAN object back to the scheduler on every exit path, and a
 * clean object + rebind is field-wise a newly constructed coroutine (T + I contract; loop contract on the rebind loop).
 *
 * Lifted: coroutines/src/detail/coroutine_impl.cpp  coroutine_impl::operator();  coroutine_impl.hpp  coroutine_impl
 *   constructor (mem-initialiser list), reset, rebind, bind_result, args, bind_args;  context_base.hpp  context_base
 *   constructor (mem-initialiser list), reset_tss, reset, rebind_base, do_return, do_yield, do_invoke, running, is_ready;
 *   coroutine_self.hpp  coroutine_self constructor, set_self, get_self, reset_self_on_exit constructor / destructor;
 *   coroutine_stackful_self.hpp  constructor.
 * Hand written: C structs, the user's thread function (functor_call), the context switch (swap_context_*: assembly,
 *   together with what the scheduler does before it resumes a recycled coroutine), contract, harness. */
#include "vx.h"
#include <stddef.h>

enum { thread_schedule_state_unknown = 0, thread_schedule_state_active = 1, thread_schedule_state_pending = 2,
       thread_schedule_state_suspended = 3, thread_schedule_state_terminated = 4 };
enum { ctx_running = 0, ctx_ready, ctx_exited };                         /* context_base::context_state */
enum { ctx_exit_not_requested = 0, ctx_exit_pending, ctx_exit_signaled }; /* context_exit_state */
enum { ctx_not_exited = 0, ctx_exited_return, ctx_exited_abnormally };    /* context_exit_status */

typedef void *thread_id;                       /* threads::detail::thread_id: a pointer to the thread_data */
#define invalid_thread_id ((thread_id) NULL)
struct result { int8_t first; thread_id second; };  /* std::pair<thread_schedule_state, thread_id> */
static struct result result_make(int8_t s, thread_id id) { struct result r; r.first = s; r.second = id; return r; }
struct functor { bool nonempty; int token; };   /* unique_function<result_type(arg_type)>: emptiness + identity token */
struct exc_ptr { bool set; };                   /* std::exception_ptr: null / non-null */
static struct exc_ptr exc_null(void) { struct exc_ptr e; e.set = false; return e; }
static struct exc_ptr exc_current(void) { struct exc_ptr e; e.set = true; return e; }
struct ctx_base { void **m_sp; };               /* x86_linux_context_impl_base (the caller's context) */
#define VX_VALUE_INIT(x) ((x) = (__typeof__(x)){0})

struct coroutine;
struct coroutine_self { struct coroutine_self *next_self_; struct coroutine *pimpl_; };
struct reset_self_on_exit { struct coroutine_self *old_self; };
static struct coroutine_self *g_local_self;     /* coroutine_self::local_self(): thread_local pointer of the worker */

struct coroutine /* coroutine_impl : context_base<coroutine_impl> : x86_linux_context_impl */
{
  struct ctx_base m_caller;
  int m_state, m_exit_state, m_exit_status;
  size_t m_thread_data;                 /* PIKA_HAVE_THREAD_LOCAL_STORAGE is off: the task-local data word */
  struct exc_ptr m_type_info;
  thread_id m_thread_id;
  size_t continuation_recursion_count_;
  struct result m_result;
  int8_t *m_arg;
  struct functor m_fun;
};
#define CO_FIELDS(c) (c)->m_caller, (c)->m_state, (c)->m_exit_state, (c)->m_exit_status, (c)->m_thread_data, (c)->m_type_info, \
  (c)->m_thread_id, (c)->continuation_recursion_count_, (c)->m_result, (c)->m_arg, (c)->m_fun

/* ---- ghost ---- */
static struct coroutine_self *g_outer_self;  /* local_self of the scheduler that invoked us */
static long g_returns;                       /* control transfers back to the scheduler (saturating) */
static long g_stack_resets, g_stack_rebinds; /* calls of x86_linux_context_impl::reset_stack / rebind_stack (contracts: unit group 1) */
static bool g_threw;                         /* the thread function of the current task left by exception */
static int8_t g_arg;                         /* the restart-state argument the scheduler passes to operator()(arg) */
static struct coroutine g_fresh;             /* a newly constructed coroutine for the same function / id (lifted constructors) */
#define GHOST g_local_self, g_outer_self, g_returns, g_stack_resets, g_stack_rebinds, g_threw, g_arg, g_fresh

static void ctx_reset_stack(struct coroutine *c) { if (g_stack_resets < 2) g_stack_resets++; }
static void ctx_rebind_stack(struct coroutine *c) { if (g_stack_rebinds < 2) g_stack_rebinds++; }
static void thread_id_reset(thread_id *id) { *id = NULL; }                          /* thread_id::reset() */
/* unique_function::reset(): destroys the task's function object ON the coroutine -- "the destructors may still yield" (comment in
 * coroutine_impl::operator(), HPX #4800): a yield from there goes through coroutine_stackful_self::yield_impl, which binds ITS
 * result (pending / suspended) in m_result and hands control to the worker; when the task is resumed the destructor finishes.
 * The hand-over itself is not modelled; its visible effect is that m_result holds the yield's value afterwards
 * (added after seeded change C01-9 was missed: the final {terminated} must be bound AFTER the function object is gone) */
static void functor_reset(struct functor *f)
{
  f->nonempty = false; f->token = 0;
  if (nondet_bool())
  {
    struct coroutine *vx_c = (struct coroutine *) ((char *) f - offsetof(struct coroutine, m_fun));
    vx_c->m_result.first = nondet_bool() ? thread_schedule_state_pending : thread_schedule_state_suspended;
    vx_c->m_result.second = NULL;
  }
}

/* ---- lifted helpers ---- */
void coroutine_self_set_self(struct coroutine_self *self)
//@LIFT set_self
struct coroutine_self *coroutine_self_get_self(void)
//@LIFT get_self
void coroutine_self_ctor(struct coroutine_self *self, struct coroutine_self *next_self)
//@LIFT coroutine_self_ctor
void coroutine_stackful_self_ctor(struct coroutine_self *self, struct coroutine *pimpl, struct coroutine_self *next_self)
//@LIFT stackful_self_ctor
void reset_self_on_exit_ctor(struct reset_self_on_exit *self, struct coroutine_self *val, struct coroutine_self *old_val)
//@LIFT rsoe_ctor
void reset_self_on_exit_dtor(struct reset_self_on_exit *self)
//@LIFT rsoe_dtor

bool cb_running(struct coroutine *thiz)
//@LIFT cb_running
bool cb_is_ready(struct coroutine *thiz)
//@LIFT cb_is_ready
void cb_ctor(struct coroutine *thiz, ptrdiff_t stack_size, thread_id id)
//@LIFT cb_ctor
void ci_ctor(struct coroutine *thiz, struct functor f, thread_id id, ptrdiff_t stack_size)
//@LIFT ci_ctor
void cb_reset_tss(struct coroutine *thiz)
//@LIFT cb_reset_tss
void cb_reset(struct coroutine *thiz)
//@LIFT cb_reset
void ci_reset(struct coroutine *thiz)
//@LIFT ci_reset
void ci_bind_result(struct coroutine *thiz, struct result res)
//@LIFT ci_bind_result
int8_t *ci_args(struct coroutine *thiz)
//@LIFT ci_args
void ci_bind_args(struct coroutine *thiz, int8_t *arg)
//@LIFT ci_bind_args
void cb_rebind_base(struct coroutine *thiz, thread_id id)
//@LIFT cb_rebind_base
void ci_rebind(struct coroutine *thiz, struct functor f, thread_id id)
//@LIFT ci_rebind

/* TRUSTED: the user's thread function, running as the task.  It may store task-local data (set_thread_data), it may be
 * suspended and resumed (invisible here: the object's fields are the task's own while it runs), and it either returns
 * (thread_schedule_state::terminated, next) -- the wrapper thread_function guarantees `terminated` -- or throws. */
static struct result functor_call(struct coroutine *c, int8_t arg)
{
  struct result r;
  VX_ASSERT(c->m_fun.nonempty, "the trampoline calls a bound thread function");
  VX_ASSERT(g_local_self != NULL && g_local_self->pimpl_ == c, "while the task runs, coroutine_self::get_self() is this coroutine's self");
  c->m_thread_data = nondet_size();
  c->continuation_recursion_count_ = nondet_size();
  g_threw = nondet_bool();
  r.first = thread_schedule_state_terminated;
  r.second = nondet_bool() ? (thread_id) c : NULL;
  return r;
}

#define CO_EQ(a, b) ((a)->m_state == (b)->m_state && (a)->m_exit_state == (b)->m_exit_state && (a)->m_exit_status == (b)->m_exit_status && \
  (a)->m_thread_data == (b)->m_thread_data && (a)->m_type_info.set == (b)->m_type_info.set && (a)->m_thread_id == (b)->m_thread_id && \
  (a)->m_result.first == (b)->m_result.first && (a)->m_result.second == (b)->m_result.second && (a)->m_arg == (b)->m_arg && \
  (a)->m_fun.nonempty == (b)->m_fun.nonempty && (a)->m_fun.token == (b)->m_fun.token)

/* swap_context(*this, m_caller, yield_hint): control goes back to the scheduler (context_base::invoke returns there).
 * Assembly: no C semantics.  What this stub stands for: (1) the moment the scheduler sees the object again -- the
 * obligations of the property are asserted here; (2) the only way control ever comes back into an exited coroutine:
 * the object is taken from a free list, rebound (lifted coroutine_impl::rebind) and invoked again (lifted bind_args,
 * do_invoke).  The switch INTO the coroutine is the return of this function. */
static void swap_context_yield(struct coroutine *c)
{
  if (g_returns < 2) g_returns++;
  VX_ASSERT(c->m_state == ctx_exited, "the trampoline gives up control only as an exited coroutine");
  VX_ASSERT(c->m_thread_data == 0, "task-local data is cleared before control returns to the scheduler");
  VX_ASSERT(c->m_thread_id == invalid_thread_id, "the thread id is reset before control returns to the scheduler");
  VX_ASSERT(!c->m_fun.nonempty && c->m_arg == NULL, "the thread function and its argument are released before control returns");
  VX_ASSERT(g_local_self == g_outer_self, "coroutine_self::local_self is the scheduler's again");
  VX_ASSERT(g_stack_resets == 1, "the stack is handed to reset_stack exactly once per task");
  VX_ASSERT((c->m_exit_status == ctx_exited_abnormally) == g_threw && (c->m_exit_status == ctx_exited_return) == !g_threw,
            "exit status tells the scheduler how the task ended");
  VX_ASSERT(c->m_type_info.set == g_threw, "the exception (and only an exception) is passed on to invoke()");
  VX_ASSERT(g_threw || c->m_result.first == thread_schedule_state_terminated, "the result of a task that returned is bound for the scheduler");
  if (g_threw) VX_REACH("handed_back_after_exception"); else VX_REACH("handed_back_after_return");
  /* ---- recycling: a new task in the same object ---- */
  struct functor f; f.nonempty = true; f.token = nondet_int();
  int some_thread_data;
  thread_id id = &some_thread_data;
  ci_ctor(&g_fresh, f, id, nondet_ptrdiff()); /* what a brand-new coroutine for (f, id) looks like */
  size_t crc = c->continuation_recursion_count_;
  ci_rebind(c, f, id);
  VX_ASSERT(CO_EQ(c, &g_fresh), "exited + rebound coroutine == newly constructed coroutine (state, exit state/status, task-local data, exception, id, result, argument, function)");
  if (crc != 0) VX_REACH("continuation_recursion_count_inherited");
  /* coroutine::operator()(arg): bind_args, invoke -> do_invoke */
  g_stack_resets = 0; g_threw = false;
  g_outer_self = nondet_bool() ? g_outer_self : NULL; /* possibly another worker: another local_self */
  g_local_self = g_outer_self;
  VX_ASSERT(cb_is_ready(c), "PIKA_ASSERT(impl_.is_ready()) of coroutine::operator()");
  ci_bind_args(c, &g_arg);
  cb_do_invoke(c);
}
#define swap_context_invoke(c) ((void) 0) /* swap_context(m_caller, *this, invoke_hint): the switch into the coroutine */

void cb_do_invoke(struct coroutine *thiz);
void cb_do_yield(struct coroutine *thiz)
//@LIFT cb_do_yield
void cb_do_invoke(struct coroutine *thiz)
//@LIFT cb_do_invoke
void cb_do_return(struct coroutine *thiz, int status, struct exc_ptr info)
//@LIFT cb_do_return

/* the state in which a coroutine is entered: invoked (running), function and argument bound, no task-local data yet */
#define ENTERED(c) ((c)->m_state == ctx_running && (c)->m_fun.nonempty && (c)->m_arg == &g_arg && (c)->m_thread_data == 0 && \
  (c)->m_thread_id != invalid_thread_id && (c)->m_result.first == thread_schedule_state_unknown && g_local_self == g_outer_self && \
  g_stack_resets == 0 && !g_threw)

//@FUNC
void trampoline(struct coroutine *thiz)
__CPROVER_requires(ENTERED(thiz) && thiz != &g_fresh && g_returns == 0)
/* never returns (every transfer of control happens inside swap_context); the obligations sit at the transfer points */
__CPROVER_assigns(CO_FIELDS(thiz), GHOST)
//@LIFT trampoline

void harness(void)
{
  struct coroutine c;
  struct coroutine_self outer;
  int some_thread_data;
  outer.next_self_ = NULL; outer.pimpl_ = NULL;
  g_outer_self = nondet_bool() ? &outer : NULL;
  g_local_self = g_outer_self;
  g_returns = 0; g_stack_resets = 0; g_stack_rebinds = 0; g_threw = false; g_arg = nondet_i8();
  /* a coroutine that has been constructed (lifted constructors) and invoked for the first time */
  struct functor f; f.nonempty = true; f.token = nondet_int();
  c.m_caller.m_sp = NULL; c.m_state = nondet_int(); c.m_exit_state = nondet_int(); c.m_exit_status = nondet_int();
  c.m_thread_data = nondet_size(); c.m_type_info.set = nondet_bool(); c.m_thread_id = NULL;
  c.continuation_recursion_count_ = nondet_size(); c.m_result.first = nondet_i8(); c.m_result.second = NULL; c.m_arg = NULL;
  c.m_fun.nonempty = nondet_bool(); c.m_fun.token = nondet_int();
  g_fresh = c;
  ci_ctor(&c, f, &some_thread_data, nondet_ptrdiff());
  ci_bind_args(&c, &g_arg);
  cb_do_invoke(&c);
  trampoline(&c);
}
