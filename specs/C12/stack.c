/* C12 unit group 1 -- stack geometry (F contracts on the ordinary-code part of the context implementation).
 *
 * Lifted: coroutines/detail/posix_utility.hpp  check_stack_size, to_stack_with/without_guard_page, add_guard_page,
 *         stack_size_with_guard_page, alloc_stack, watermark_stack, reset_stack, free_stack, and the PIKA_EXEC_PAGESIZE
 *         definition;  coroutines/detail/context_linux_x86.hpp (the context implementation active in this build: no
 *         PIKA_HAVE_BOOST_CONTEXT, __linux__, x86-64)  x86_linux_context_impl: constructor initialiser list, init(),
 *         ~x86_linux_context_impl(), reset_stack(), rebind_stack(), get_available_stack_space(), default_stack_size and
 *         the context_size/cb_idx/funp_idx layout constants.
 * Hand written: struct ctx, ghost records of the system calls, the system-call stubs, contracts, harnesses.
 *
 * Addresses: a mapping is a fresh object of exactly `len` bytes; every dereference / pointer step in the lifted text
 * is checked by CBMC against that object (--pointer-check --bounds-check --pointer-overflow-check).  Range statements
 * of the contracts compare addresses as integers, widened to 128 bits so that the contract itself cannot overflow. */
#include "vx.h"
#include <sys/param.h> /* EXEC_PAGESIZE: the header posix_utility.hpp takes the page size from */
#ifdef VX_NATIVE
#include <stdlib.h>
#include <string.h>
#else
void *malloc(size_t);
#endif
#ifdef VX_NATIVE
#define VX_HAVOC_OBJECT(p) ((void) 0)
#else
#define VX_HAVOC_OBJECT(p) __CPROVER_havoc_object(p)
#endif
/* zero the n bytes from p to the end of p's object */
#ifdef VX_NATIVE
#define VX_ZERO_TO_END(p, n) memset((p), 0, (n))
#else
#define VX_ZERO_TO_END(p, n) __CPROVER_array_set((p), (char) 0)
#endif

//@LIFT pagesize

/* ---- <sys/mman.h>, <errno.h> of the build platform (linux x86-64); spelled out so that no libc prototype is needed ---- */
#define PROT_NONE 0x0
#define PROT_READ 0x1
#define PROT_WRITE 0x2
#define MAP_PRIVATE 0x02
#define MAP_ANONYMOUS 0x20
#define MAP_NORESERVE 0x4000
#define MAP_FAILED ((void *) -1)
#define MADV_DONTNEED 4
#define ENOMEM 12
static int vx_errno;
#undef errno
#define errno vx_errno

/* ---- exceptions: `throw std::runtime_error(..)` is lowered to "set vx_exc, leave the function"; a call of a function
 *      that may throw is followed by `if (vx_exc) return ..;` (rules throw_rt / may_throw in spec.py) ---- */
static bool vx_exc;

bool use_guard_pages; /* posix::use_guard_pages (set once from pika.stacks.use_guard_pages before any stack exists) */

/* ---- ghost record of the system calls (one region per call kind + saturating call counters 0,1,2) ---- */
static long g_maps, g_prots, g_advs, g_unmaps;
static void *g_map_addr, *g_prot_addr, *g_adv_addr, *g_unmap_addr;
static size_t g_map_len, g_prot_len, g_adv_len, g_unmap_len;
static int g_map_prot, g_prot_prot, g_adv_advice;
#define SYS_FRAME vx_exc, vx_errno, g_maps, g_prots, g_advs, g_unmaps, g_map_addr, g_prot_addr, g_adv_addr, g_unmap_addr, \
                  g_map_len, g_prot_len, g_adv_len, g_unmap_len, g_map_prot, g_prot_prot, g_adv_advice
#define VX_BUMP(c) do { if ((c) < 2) (c)++; } while (0)

/* TRUSTED (kernel): mmap either fails (always for len == 0 -- POSIX EINVAL -- and for lengths beyond the user address
 * space, 2^47 bytes on x86-64) or returns a fresh region of exactly len bytes, disjoint from everything else. */
#define VX_MAX_MAP ((size_t) 1 << 47)
static void *vx_mmap(void *addr, size_t len, int prot, int flags, int fd, long off)
{
  if (len == 0 || len > VX_MAX_MAP || nondet_bool()) { vx_errno = nondet_int(); return MAP_FAILED; }
  void *p = malloc(len);
  if (p == NULL) { vx_errno = ENOMEM; return MAP_FAILED; }
  VX_BUMP(g_maps);
  g_map_addr = p; g_map_len = len; g_map_prot = prot;
  return p;
}
static int vx_mprotect(void *addr, size_t len, int prot)
{
  VX_BUMP(g_prots);
  g_prot_addr = addr; g_prot_len = len; g_prot_prot = prot;
  if (nondet_bool()) { vx_errno = nondet_int(); return -1; }
  return 0;
}
static int vx_madvise(void *addr, size_t len, int advice)
{
  VX_BUMP(g_advs);
  g_adv_addr = addr; g_adv_len = len; g_adv_advice = advice;
  if (nondet_bool()) { vx_errno = nondet_int(); return -1; }
  return 0;
}
static int vx_munmap(void *addr, size_t len)
{
  VX_BUMP(g_unmaps);
  g_unmap_addr = addr; g_unmap_len = len;
  if (nondet_bool()) { vx_errno = nondet_int(); return -1; }
  return 0;
}

/* ---- address arithmetic of the contracts (128 bit: no wrap-around inside a contract) ---- */
typedef unsigned __int128 u128;
#define A(p) ((u128) (uintptr_t) (p))
#define PAGE ((size_t) PIKA_EXEC_PAGESIZE)
#define VALID_SIZE(s) ((s) > 0 && (s) % PAGE == 0)
/* [p, p+n) lies inside [q, q+m) */
#define INSIDE(p, n, q, m) (A(p) >= A(q) && A(p) + (u128) (n) <= A(q) + (u128) (m))
#define DISJOINT(p, n, q, m) (A(p) + (u128) (n) <= A(q) || A(q) + (u128) (m) <= A(p))
/* sizes for which the contracts promise "no arithmetic overflow": every positive std::ptrdiff_t the configuration can
 * hold (pika.stacks.*_size is parsed with strtoll into a std::ptrdiff_t).  SIZE_RANGE_ANY lifts the restriction. */
#ifdef SIZE_RANGE_ANY
#define SIZE_IN_RANGE(s) 1
#else
#define SIZE_IN_RANGE(s) ((s) <= (size_t) PTRDIFF_MAX)
#endif

/* ================= posix_utility.hpp (lifted) ================= */
void check_stack_size(size_t size)
#ifdef U_CHECK_STACK_SIZE
__CPROVER_requires(!vx_exc)
/* rejects 0 and every size that is not a multiple of the page size -- and nothing else */
__CPROVER_ensures(vx_exc == !VALID_SIZE(size))
__CPROVER_assigns(vx_exc)
#endif
//@LIFT check_stack_size

void *to_stack_with_guard_page(void *stack)
//@LIFT to_stack_with_guard_page

void *to_stack_without_guard_page(void *stack)
//@LIFT to_stack_without_guard_page

void add_guard_page(void *stack)
//@LIFT add_guard_page

size_t stack_size_with_guard_page(size_t size)
//@LIFT stack_size_with_guard_page

//@FUNC
void *alloc_stack(size_t size)
#ifdef U_ALLOC_STACK
__CPROVER_requires(!vx_exc && g_maps == 0 && g_prots == 0 && SIZE_IN_RANGE(size))
/* a stack is handed out only for an acceptable size, from exactly one mapping, and lies inside that mapping */
__CPROVER_ensures(!vx_exc ==> (VALID_SIZE(size) && g_maps == 1 && INSIDE(__CPROVER_return_value, size, g_map_addr, g_map_len)))
/* guard pages on: there is a guard region (PROT_NONE, non-empty, inside the mapping) */
__CPROVER_ensures((!vx_exc && use_guard_pages) ==> (g_prots == 1 && g_prot_prot == PROT_NONE && g_prot_len > 0 && INSIDE(g_prot_addr, g_prot_len, g_map_addr, g_map_len)))
/* on or off: whatever was made inaccessible is disjoint from the stack handed out */
__CPROVER_ensures(!vx_exc ==> (g_prots <= 1 && (g_prots == 1 ==> DISJOINT(__CPROVER_return_value, size, g_prot_addr, g_prot_len))))
__CPROVER_ensures(g_maps <= 1 && g_unmaps == __CPROVER_old(g_unmaps) && g_advs == __CPROVER_old(g_advs))
__CPROVER_assigns(SYS_FRAME)
#endif
//@LIFT alloc_stack

/* ghost description of "a stack of g_stk_size bytes at g_stk_base" for the units that start from an existing stack: the
 * harness makes it an object of EXACTLY that size, so CBMC's own bounds checks mean "inside the stack" */
static void *g_stk_base;
static size_t g_stk_size;

//@FUNC
void watermark_stack(void *stack, size_t size)
#ifdef U_WATERMARK_STACK
__CPROVER_requires(stack == g_stk_base && size == g_stk_size && VALID_SIZE(size) && SIZE_IN_RANGE(size))
/* the only memory written is inside the stack (frame) -- and every access is bounds-checked against the stack object */
__CPROVER_assigns(__CPROVER_object_whole(stack))
#endif
//@LIFT watermark_stack

//@FUNC
bool reset_stack(void *stack, size_t size)
#ifdef U_RESET_STACK
__CPROVER_requires(!vx_exc && stack == g_stk_base && size == g_stk_size && VALID_SIZE(size) && SIZE_IN_RANGE(size) && g_advs == 0)
/* at most one madvise; its range lies inside the stack and spares the top (first used) page */
__CPROVER_ensures(g_advs <= 1 && (g_advs == 1 ==> (g_adv_advice == MADV_DONTNEED && INSIDE(g_adv_addr, g_adv_len, stack, size - PAGE))))
/* true is returned exactly when the stack was given back to the kernel */
__CPROVER_ensures(!vx_exc ==> (__CPROVER_return_value == (g_advs == 1)))
__CPROVER_ensures(g_maps == __CPROVER_old(g_maps) && g_unmaps == __CPROVER_old(g_unmaps) && g_prots == __CPROVER_old(g_prots))
__CPROVER_assigns(SYS_FRAME)
#endif
//@LIFT reset_stack

void free_stack(void *stack, size_t size)
//@LIFT free_stack

/* ================= context_linux_x86.hpp: x86_linux_context_impl<CoroutineImpl> (lifted) ================= */
struct ctx { void **m_sp; ptrdiff_t m_stack_size; void *m_stack; };
void trampoline_CoroutineImpl(void *fun); /* lx::trampoline<CoroutineImpl>: only its address is taken */
static size_t g_sp; /* the value the frame-address builtin / rsp read returns (get_stack_ptr) */
static size_t get_stack_ptr(void) { return g_sp; }

//@LIFT default_stack_size
//@LIFT layout

#define CTX_FRAME_BYTES ((u128) context_size * sizeof(void *))
/* the initial frame [m_sp, m_sp + context_size words) lies inside the stack */
#define SP_IN_STACK(c) (A((c)->m_sp) >= A((c)->m_stack) && A((c)->m_sp) + CTX_FRAME_BYTES <= A((c)->m_stack) + (u128) (size_t) (c)->m_stack_size)

//@FUNC
void ctx_ctor(struct ctx *self, ptrdiff_t stack_size)
#ifdef U_CTX_CTOR
/* the context asks for exactly the configured size of its class; -1 selects a default that alloc_stack accepts */
__CPROVER_ensures(self->m_stack == NULL)
__CPROVER_ensures(stack_size != -1 ==> self->m_stack_size == stack_size)
__CPROVER_ensures(stack_size == -1 ==> (self->m_stack_size > 0 && VALID_SIZE((size_t) self->m_stack_size)))
__CPROVER_assigns(self->m_stack, self->m_stack_size)
#endif
//@LIFT ctx_ctor

//@FUNC
void ctx_init(struct ctx *self)
#ifdef U_CTX_INIT
__CPROVER_requires(!vx_exc && g_maps == 0 && g_prots == 0)
#ifndef SIZE_RANGE_ANY
__CPROVER_requires(self->m_stack_size > 0)
#endif
/* a context that has a stack keeps it: its own stack, never a second one */
__CPROVER_ensures(__CPROVER_old(self->m_stack) != NULL ==> (!vx_exc && g_maps == 0 && self->m_stack == __CPROVER_old(self->m_stack) && self->m_sp == __CPROVER_old(self->m_sp)))
/* otherwise: a stack of exactly m_stack_size bytes inside one fresh mapping, disjoint from the guard region ... */
__CPROVER_ensures((__CPROVER_old(self->m_stack) == NULL && !vx_exc) ==> (self->m_stack_size > 0 && VALID_SIZE((size_t) self->m_stack_size) && g_maps == 1 && self->m_stack != NULL && INSIDE(self->m_stack, (size_t) self->m_stack_size, g_map_addr, g_map_len)))
__CPROVER_ensures((__CPROVER_old(self->m_stack) == NULL && !vx_exc && use_guard_pages) ==> (g_prots == 1 && g_prot_prot == PROT_NONE && g_prot_len > 0 && INSIDE(g_prot_addr, g_prot_len, g_map_addr, g_map_len)))
__CPROVER_ensures((__CPROVER_old(self->m_stack) == NULL && !vx_exc) ==> (g_prots <= 1 && (g_prots == 1 ==> DISJOINT(self->m_stack, (size_t) self->m_stack_size, g_prot_addr, g_prot_len))))
/* ... and the initial frame the first context switch pops lies inside that stack */
__CPROVER_ensures((__CPROVER_old(self->m_stack) == NULL && !vx_exc) ==> SP_IN_STACK(self))
/* a failed init leaves the context without a stack (so that the destructor frees nothing) */
__CPROVER_ensures(vx_exc ==> self->m_stack == NULL)
__CPROVER_ensures(self->m_stack_size == __CPROVER_old(self->m_stack_size))
__CPROVER_assigns(SYS_FRAME, self->m_stack, self->m_sp)
#endif
//@LIFT ctx_init

void ctx_dtor(struct ctx *self)
//@LIFT ctx_dtor

//@FUNC
void ctx_reset_stack(struct ctx *self)
#ifdef U_CTX_RESET_STACK
__CPROVER_requires(!vx_exc && self->m_stack == g_stk_base && self->m_stack_size > 0 && (size_t) self->m_stack_size == g_stk_size && VALID_SIZE(g_stk_size) && g_advs == 0)
__CPROVER_ensures(g_advs <= 1 && (g_advs == 1 ==> (g_adv_advice == MADV_DONTNEED && INSIDE(g_adv_addr, g_adv_len, self->m_stack, (size_t) self->m_stack_size - PAGE))))
__CPROVER_ensures(g_maps == __CPROVER_old(g_maps) && g_unmaps == __CPROVER_old(g_unmaps) && g_prots == __CPROVER_old(g_prots))
__CPROVER_ensures(self->m_stack == __CPROVER_old(self->m_stack) && self->m_stack_size == __CPROVER_old(self->m_stack_size))
__CPROVER_assigns(SYS_FRAME)
#endif
//@LIFT ctx_reset_stack

static void **g_init_sp; /* m_sp as init() leaves it for this stack (recorded by the harness from the lifted init) */
//@FUNC
void ctx_rebind_stack(struct ctx *self)
#ifdef U_CTX_REBIND_STACK
__CPROVER_requires(self->m_stack == g_stk_base && self->m_stack_size > 0 && (size_t) self->m_stack_size == g_stk_size && VALID_SIZE(g_stk_size))
/* a recycled context starts from the same virgin frame as a new one: same stack, same stack pointer, same entry slots */
__CPROVER_ensures(self->m_sp == g_init_sp && SP_IN_STACK(self))
__CPROVER_ensures(self->m_sp[cb_idx] == (void *) self && self->m_sp[funp_idx] == (void *) trampoline_CoroutineImpl)
__CPROVER_ensures(self->m_stack == __CPROVER_old(self->m_stack) && self->m_stack_size == __CPROVER_old(self->m_stack_size))
__CPROVER_assigns(self->m_sp, __CPROVER_object_whole(self->m_stack))
#endif
//@LIFT ctx_rebind_stack

//@FUNC
ptrdiff_t ctx_get_available_stack_space(struct ctx *self)
#ifdef U_CTX_AVAILABLE
__CPROVER_requires(self->m_stack == g_stk_base && self->m_stack_size > 0 && (size_t) self->m_stack_size == g_stk_size && VALID_SIZE(g_stk_size))
/* the running task's stack pointer is inside its stack, at least context_size bytes above the base */
__CPROVER_requires((u128) g_sp >= A(self->m_stack) + context_size && (u128) g_sp <= A(self->m_stack) + g_stk_size)
/* never reports more room than there is between the stack base and the current stack pointer */
__CPROVER_ensures(__CPROVER_return_value >= 0 && (u128) __CPROVER_return_value <= (u128) g_sp - A(self->m_stack))
__CPROVER_assigns()
#endif
//@LIFT ctx_available

/* ================= harnesses ================= */
static void ghost_reset(void)
{
  vx_exc = false; vx_errno = 0;
  g_maps = 0; g_prots = 0; g_advs = 0; g_unmaps = 0;
  g_map_addr = NULL; g_prot_addr = NULL; g_adv_addr = NULL; g_unmap_addr = NULL;
  g_map_len = 0; g_prot_len = 0; g_adv_len = 0; g_unmap_len = 0;
  g_map_prot = 0; g_prot_prot = 0; g_adv_advice = 0;
  g_stk_base = NULL; g_stk_size = 0; g_init_sp = NULL; g_sp = 0;
  use_guard_pages = nondet_bool();
}
/* an existing stack: an object of exactly `size` bytes */
static void *make_stack(size_t size)
{
  VX_ASSUME(VALID_SIZE(size) && size <= VX_MAX_MAP); /* harness input domain: sizes for which a mapping can exist */
  void *p = malloc(size);
  VX_ASSUME(p != NULL);
  g_stk_base = p; g_stk_size = size;
  return p;
}

void harness(void)
{
  ghost_reset();
#ifdef U_CHECK_STACK_SIZE
  size_t size = nondet_size();
  check_stack_size(size);
  if (vx_exc) { VX_REACH("rejected"); if (size == 0) VX_REACH("rejected_zero"); }
  else { VX_REACH("accepted"); if (size > (size_t) PTRDIFF_MAX) VX_REACH("accepted_above_ptrdiff_max"); }
#endif
#ifdef U_GUARD_ROUNDTRIP
  /* lemma: with = without^-1 on every address at which the other function may be applied */
  size_t len = nondet_size(), off = nondet_size();
  VX_ASSUME(len >= PAGE && len <= VX_MAX_MAP && off <= len - PAGE);
  char *base = malloc(len);
  VX_ASSUME(base != NULL);
  void *lo = base + off;        /* at least one page of room above */
  void *hi = base + off + PAGE; /* at least one page of room below */
  VX_ASSERT(to_stack_with_guard_page(to_stack_without_guard_page(lo)) == lo, "to_stack_with_guard_page o to_stack_without_guard_page = id");
  VX_ASSERT(to_stack_without_guard_page(to_stack_with_guard_page(hi)) == hi, "to_stack_without_guard_page o to_stack_with_guard_page = id");
  /* the step is exactly the size of what stack_size_with_guard_page adds (the guard region is what is skipped) */
  VX_ASSERT(A(to_stack_without_guard_page(lo)) - A(lo) == (u128) stack_size_with_guard_page(len) - (u128) len, "guard offset == guard size");
  if (use_guard_pages) VX_REACH("guard_on"); else VX_REACH("guard_off");
#endif
#ifdef U_ALLOC_STACK
  size_t size = nondet_size();
  void *p = alloc_stack(size);
  if (!vx_exc) { VX_REACH("mapped"); if (use_guard_pages) VX_REACH("mapped_guard_on"); else VX_REACH("mapped_guard_off"); }
  else { VX_REACH("threw"); if (g_maps == 1) VX_REACH("threw_after_mmap"); }
#endif
#ifdef U_ALLOC_FREE
  /* lemma: free_stack unmaps exactly what alloc_stack mapped (use_guard_pages does not change in between) */
  size_t size = nondet_size();
  VX_ASSUME(SIZE_IN_RANGE(size));
  void *p = alloc_stack(size);
  if (!vx_exc)
  {
    free_stack(p, size);
    VX_ASSERT(g_unmaps == 1 && g_unmap_addr == g_map_addr && g_unmap_len == g_map_len, "free_stack unmaps exactly the region alloc_stack mapped");
    VX_ASSERT(g_maps == 1, "one mapping per stack");
    if (vx_exc) VX_REACH("munmap_failed"); else VX_REACH("freed");
    if (use_guard_pages) VX_REACH("guard_on"); else VX_REACH("guard_off");
  }
#endif
#ifdef U_WATERMARK_STACK
  size_t size = nondet_size();
  void *stk = make_stack(size);
  watermark_stack(stk, size);
  VX_REACH("returned");
  if (size == PAGE) VX_REACH("one_page_stack");
#endif
#ifdef U_RESET_STACK
  size_t size = nondet_size();
  void *stk = make_stack(size);
  bool r = reset_stack(stk, size);
  if (vx_exc) VX_REACH("madvise_failed"); else if (r) VX_REACH("given_back"); else VX_REACH("untouched");
  if (!vx_exc && r && size == PAGE) VX_REACH("one_page_stack_given_back");
#endif
#ifdef U_WATERMARK_RESET
  /* lemma: the word reset_stack inspects is the word watermark_stack wrote: a stack that was not used after
   * watermarking is not given back, one whose first (top) page was used up is */
  size_t size = nondet_size();
  void *stk = make_stack(size);
  watermark_stack(stk, size);
  bool touched = nondet_bool();
  if (touched) VX_ZERO_TO_END((char *) stk + (size - PAGE), PAGE); /* the task's frames grew past the first (top) page: every word of it was overwritten */
  bool r = reset_stack(stk, size);
  if (!touched) { VX_ASSERT(!r && g_advs == 0 && !vx_exc, "an intact watermark means: nothing is given back"); VX_REACH("intact"); }
  else { VX_ASSERT(g_advs == 1, "an overwritten watermark means: the stack is given back"); VX_REACH("overwritten"); }
#endif
#ifdef U_CTX_CTOR
  struct ctx c;
  c.m_sp = NULL; c.m_stack = malloc(1); c.m_stack_size = nondet_ptrdiff();
  ptrdiff_t ss = nondet_ptrdiff();
  ctx_ctor(&c, ss);
  if (ss == -1) VX_REACH("default_size"); else VX_REACH("given_size");
#endif
#ifdef U_CTX_INIT
  struct ctx c;
  c.m_sp = NULL; c.m_stack = NULL; c.m_stack_size = nondet_ptrdiff();
  bool had = nondet_bool();
  if (had) { c.m_stack = malloc(8); VX_ASSUME(c.m_stack != NULL); }
  ctx_init(&c);
  if (had) VX_REACH("already_initialised");
  else if (vx_exc)
  {
    VX_REACH("threw");
#ifdef SIZE_RANGE_ANY
    if (c.m_stack_size < -1) VX_REACH("threw_negative_size");
#endif
  }
  else { VX_REACH("initialised"); if (use_guard_pages) VX_REACH("initialised_guard_on"); else VX_REACH("initialised_guard_off"); }
#endif
#ifdef U_CTX_INIT_DTOR
  /* lemma: constructor, init, destructor -- the destructor unmaps exactly the mapping init created */
  struct ctx c;
  ptrdiff_t ss = nondet_ptrdiff();
  VX_ASSUME(ss >= -1);
  ctx_ctor(&c, ss);
  bool inited = nondet_bool();
  if (inited) ctx_init(&c);
  if (!vx_exc)
  {
    ctx_dtor(&c);
    if (inited) { VX_ASSERT(g_unmaps == 1 && g_unmap_addr == g_map_addr && g_unmap_len == g_map_len && g_maps == 1, "~context unmaps exactly the mapping init() created"); VX_REACH("freed"); }
    else { VX_ASSERT(g_unmaps == 0, "a context without stack unmaps nothing"); VX_REACH("never_initialised"); }
  }
  else { ctx_dtor(&c); VX_ASSERT(g_unmaps == 0, "a context whose init failed unmaps nothing"); VX_REACH("init_failed"); }
#endif
#ifdef U_CTX_RESET_STACK
  struct ctx c;
  size_t size = nondet_size();
  c.m_stack = make_stack(size); c.m_stack_size = (ptrdiff_t) size; c.m_sp = NULL;
  ctx_reset_stack(&c);
  if (vx_exc) VX_REACH("madvise_failed"); else if (g_advs == 1) VX_REACH("given_back"); else VX_REACH("untouched");
#endif
#ifdef U_CTX_REBIND_STACK
  /* a new context as the lifted init() sets it up ... */
  struct ctx c;
  c.m_sp = NULL; c.m_stack = NULL; c.m_stack_size = nondet_ptrdiff();
  VX_ASSUME(c.m_stack_size > 0);
  ctx_init(&c);
  VX_ASSUME(!vx_exc); /* harness input domain: contexts whose init succeeded */
  g_stk_base = c.m_stack; g_stk_size = (size_t) c.m_stack_size;
  g_init_sp = c.m_sp;
  /* ... then the task ran: saved stack pointer changed, the whole stack content arbitrary */
  VX_HAVOC_OBJECT(c.m_stack);
  c.m_sp = nondet_bool() ? (void **) c.m_stack : NULL;
  ctx_rebind_stack(&c);
  VX_REACH("rebound");
  if (use_guard_pages) VX_REACH("rebound_guard_on");
#endif
#ifdef U_CTX_AVAILABLE
  struct ctx c;
  size_t size = nondet_size();
  c.m_stack = make_stack(size); c.m_stack_size = (ptrdiff_t) size; c.m_sp = NULL;
  g_sp = nondet_size();
  ptrdiff_t r = ctx_get_available_stack_space(&c);
  VX_REACH("returned");
  if (r == 0) VX_REACH("exhausted");
#endif
}
