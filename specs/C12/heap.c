/* C12 unit group 2 -- stack-size class -> free list ("heap") consistency of thread_queue:
 *   create_thread_object and recycle_thread choose the SAME heap for the same stack size, for every configuration of the
 *   sizes in thread_queue_init_parameters (equal sizes included), so that an object taken from a heap always has the stack
 *   size that was asked for.
 *
 * Lifted: schedulers/thread_queue.hpp  thread_queue::create_thread_object, thread_queue::recycle_thread; with -DQHT the same
 *   pair of functions of schedulers/queue_holder_thread.hpp (the queues of shared_priority_queue_scheduler).
 * Hand written: C structs; the five heaps (std::vector<thread_id_type>) abstracted to "what is on top" with ONE symbolic
 *   victim object; thread_data::rebind / thread_data_stackful::create / thread_data_stackless::create / get_stack_size /
 *   scheduler_base::get_stack_size as recording stubs; contracts; harness. */
#include "vx.h"

enum { thread_schedule_state_unknown = 0, thread_schedule_state_active = 1, thread_schedule_state_pending = 2,
       thread_schedule_state_suspended = 3, thread_schedule_state_terminated = 4, thread_schedule_state_staged = 5,
       thread_schedule_state_pending_do_not_schedule = 6, thread_schedule_state_pending_boost = 7 };
enum { thread_id_addref_yes = 0, thread_id_addref_no = 1 };
enum { thread_stacksize_unknown = -1, thread_stacksize_small_ = 1, thread_stacksize_medium = 2, thread_stacksize_large = 3,
       thread_stacksize_huge = 4, thread_stacksize_nostack = 5, thread_stacksize_current = 6,
       thread_stacksize_default_ = 1, thread_stacksize_minimal = 1, thread_stacksize_maximal = 4 };
/* threads::detail::get_self_stacksize_enum(): the stack class of the task running on this OS thread.  create_thread_object is also
 * called from add_new() inside the scheduling loop, where no task is current: the SPAWNER's stack class is not available in this
 * function; `thread_stacksize::current` has to be resolved by create_thread in the spawning task's context (unit
 * c01.hops.tq.create_thread: the init data leaves create_thread with stacksize != current) */
static int get_self_stacksize_enum(void)
{
  VX_ASSERT(false, "create_thread_object does not consult the current task's stack class (it also runs outside any task: staged tasks are converted by the scheduling loop)");
  return thread_stacksize_small_;
}

struct thread_data { ptrdiff_t stacksize_; bool is_stackless_; };
struct scheduler_base { int unused; };
struct thread_init_data { int8_t stacksize; int8_t initial_state; struct scheduler_base *scheduler_base; };
struct params { ptrdiff_t small_stacksize_, medium_stacksize_, large_stacksize_, huge_stacksize_, nostack_stacksize_; };
/* std::vector<thread_id_type>: only the top element matters to create_thread_object */
struct heap { struct thread_data *top; };
struct thread_queue
{
  struct params parameters_;
  struct heap thread_heap_small_, thread_heap_medium_, thread_heap_large_, thread_heap_huge_, thread_heap_nostack_;
};
struct lock { bool owns; };

/* ---- ghost ---- */
static ptrdiff_t g_requested;          /* what scheduler_base::get_stack_size answers for data.stacksize */
static struct heap *g_pushed_heap;     /* heap recycle_thread pushed to */
static struct thread_data *g_pushed_obj;
static long g_pushes;                  /* saturating 0,1,2 */
static struct heap *g_consulted_heap;  /* heap create_thread_object asked for an unused object */
static long g_pops;
static struct thread_data *g_reused;   /* object create_thread_object took from a heap and rebound */
static long g_rebinds;
static struct thread_data g_new;       /* the object allocated when nothing could be reused */
static long g_creates;
static bool g_created_stackless;
static bool g_lock_released_during_alloc;
#define GHOST g_pushed_heap, g_pushed_obj, g_pushes, g_consulted_heap, g_pops, g_reused, g_rebinds, g_new, g_creates, g_created_stackless, g_lock_released_during_alloc
#define BUMP(c) do { if ((c) < 2) (c)++; } while (0)

/* ---- stubs ---- */
static ptrdiff_t scheduler_get_stack_size(struct scheduler_base *s, int8_t cls) { return g_requested; }
static ptrdiff_t thread_get_stack_size(struct thread_data *t) { return t->stacksize_; }
static void thread_rebind(struct thread_data *t, struct thread_init_data *data) { BUMP(g_rebinds); g_reused = t; }
static bool heap_empty(struct heap *h) { g_consulted_heap = h; return h->top == NULL; }
static struct thread_data *heap_back(struct heap *h) { VX_ASSERT(h->top != NULL, "vector::back() on an empty heap"); return h->top; }
static void heap_pop_back(struct heap *h) { VX_ASSERT(h->top != NULL, "vector::pop_back() on an empty heap"); BUMP(g_pops); h->top = NULL; }
static void heap_push_back(struct heap *h, struct thread_data *t) { BUMP(g_pushes); g_pushed_heap = h; g_pushed_obj = t; h->top = t; }
/* queue_holder_thread keeps std::list heaps and works at the front; with "what is on top" as the model that is the same */
#define heap_front heap_back
#define heap_pop_front heap_pop_back
#define heap_push_front heap_push_back
static struct thread_data *create_stackful(struct thread_init_data *d, struct thread_queue *q, ptrdiff_t stacksize)
{ BUMP(g_creates); g_new.stacksize_ = stacksize; g_new.is_stackless_ = false; g_created_stackless = false; return &g_new; }
static struct thread_data *create_stackless(struct thread_init_data *d, struct thread_queue *q, ptrdiff_t stacksize)
{ BUMP(g_creates); g_new.stacksize_ = stacksize; g_new.is_stackless_ = true; g_created_stackless = true; return &g_new; }
static struct thread_data *id_ref_make(struct thread_data *p, int addref) { return p; }
static void lock_unlock(struct lock *l) { VX_ASSERT(l->owns, "unlock_guard on a lock that is not owned"); l->owns = false; g_lock_released_during_alloc = true; }
static void lock_lock(struct lock *l) { VX_ASSERT(!l->owns, "re-lock of an owned lock"); l->owns = true; }

#define IS_CONFIGURED(q, s) ((s) == (q)->parameters_.small_stacksize_ || (s) == (q)->parameters_.medium_stacksize_ || \
  (s) == (q)->parameters_.large_stacksize_ || (s) == (q)->parameters_.huge_stacksize_ || (s) == (q)->parameters_.nostack_stacksize_)
#define IS_HEAP_OF(q, h) ((h) == &(q)->thread_heap_small_ || (h) == &(q)->thread_heap_medium_ || (h) == &(q)->thread_heap_large_ || \
  (h) == &(q)->thread_heap_huge_ || (h) == &(q)->thread_heap_nostack_)

//@FUNC
void recycle_thread(struct thread_queue *self, struct thread_data *thrd)
#ifdef U_RECYCLE
/* the object was created by this queue, i.e. with one of the configured sizes */
__CPROVER_requires(g_pushes == 0 && IS_CONFIGURED(self, thrd->stacksize_))
/* it ends up on exactly one free list, once (never dropped: no leak; never twice: no two tasks on one stack) */
__CPROVER_ensures(g_pushes == 1 && g_pushed_obj == thrd && IS_HEAP_OF(self, g_pushed_heap) && g_pushed_heap->top == thrd)
__CPROVER_assigns(GHOST, self->thread_heap_small_, self->thread_heap_medium_, self->thread_heap_large_, self->thread_heap_huge_, self->thread_heap_nostack_)
#endif
//@LIFT recycle_thread

static struct thread_data *g_victim; /* an arbitrary object that recycle_thread (lifted, run by the harness) put on a free list */
static ptrdiff_t g_victim_size;      /* its stack size (ghost copy: contracts avoid dereferencing ghost pointers) */
#ifdef QHT /* queue_holder_thread::create_thread_object takes no lock argument */
#define LK_PARAM
#define LK_OWNS 1
#define LK_FRAME
#else
#define LK_PARAM , struct lock *lk
#define LK_OWNS lk->owns
#define LK_FRAME lk->owns,
#endif
//@FUNC
void create_thread_object(struct thread_queue *self, struct thread_data **thrd, struct thread_init_data *data LK_PARAM)
#ifdef U_CREATE
__CPROVER_requires(LK_OWNS && g_pops == 0 && g_rebinds == 0 && g_creates == 0 && IS_CONFIGURED(self, g_requested))
__CPROVER_requires(g_pushes == 1 && g_pushed_obj == g_victim && IS_HEAP_OF(self, g_pushed_heap))
/* same heap for the same stack size */
__CPROVER_ensures(g_victim_size == g_requested ==> g_consulted_heap == g_pushed_heap)
/* whatever comes off a free list has the stack size that was asked for (the property) -- decided for the victim */
__CPROVER_ensures((g_rebinds >= 1 && g_reused == g_victim) ==> g_victim_size == g_requested)
/* exactly one object is handed out: a rebound one -- removed from its free list, so never handed out twice -- or a new
 * one of the requested size */
__CPROVER_ensures(g_rebinds + g_creates == 1 && g_pops == g_rebinds)
__CPROVER_ensures(g_creates == 1 ==> (*thrd == &g_new && g_new.stacksize_ == g_requested))
__CPROVER_ensures(g_rebinds == 1 ==> *thrd == g_reused)
__CPROVER_ensures(LK_OWNS)
__CPROVER_assigns(GHOST, *thrd, LK_FRAME data->initial_state, self->thread_heap_small_, self->thread_heap_medium_, self->thread_heap_large_, self->thread_heap_huge_, self->thread_heap_nostack_)
#endif
//@LIFT create_thread_object

void harness(void)
{
  struct thread_queue q;
  struct thread_data victim, other;
  struct scheduler_base sb;
  g_pushed_heap = NULL; g_pushed_obj = NULL; g_pushes = 0; g_consulted_heap = NULL; g_pops = 0; g_reused = NULL; g_rebinds = 0;
  g_creates = 0; g_created_stackless = false; g_lock_released_during_alloc = false; g_new.stacksize_ = 0; g_new.is_stackless_ = false;
  /* every configuration of the five sizes, equal ones included */
  q.parameters_.small_stacksize_ = nondet_ptrdiff(); q.parameters_.medium_stacksize_ = nondet_ptrdiff();
  q.parameters_.large_stacksize_ = nondet_ptrdiff(); q.parameters_.huge_stacksize_ = nondet_ptrdiff();
  q.parameters_.nostack_stacksize_ = nondet_ptrdiff();
  /* free lists: empty, or topped by some untracked object */
  other.stacksize_ = nondet_ptrdiff(); other.is_stackless_ = nondet_bool();
  q.thread_heap_small_.top = nondet_bool() ? &other : NULL; q.thread_heap_medium_.top = nondet_bool() ? &other : NULL;
  q.thread_heap_large_.top = nondet_bool() ? &other : NULL; q.thread_heap_huge_.top = nondet_bool() ? &other : NULL;
  q.thread_heap_nostack_.top = nondet_bool() ? &other : NULL;
  victim.stacksize_ = nondet_ptrdiff(); victim.is_stackless_ = nondet_bool();
  g_victim = &victim; g_victim_size = victim.stacksize_;
#ifdef U_RECYCLE
  recycle_thread(&q, &victim);
  VX_REACH("recycled");
  if (g_pushed_heap == &q.thread_heap_nostack_) VX_REACH("to_nostack_heap");
  if (g_pushed_heap == &q.thread_heap_small_ && victim.stacksize_ == q.parameters_.huge_stacksize_) VX_REACH("equal_sizes_share_first_heap");
#endif
#ifdef U_CREATE
  struct thread_init_data data;
  struct thread_data *thrd = NULL;
  struct lock lk;
  lk.owns = true;
  data.stacksize = nondet_i8(); data.initial_state = nondet_i8(); data.scheduler_base = &sb;
#ifdef QHT
  VX_ASSUME(data.stacksize >= thread_stacksize_minimal && data.stacksize <= thread_stacksize_nostack); /* PIKA_ASSERTs on the caller's init data */
#endif
  g_requested = nondet_ptrdiff();
  VX_ASSUME(IS_CONFIGURED(&q, victim.stacksize_)); /* harness input domain: objects this queue created (recycle_thread's precondition) */
  recycle_thread(&q, &victim);                     /* lifted: some earlier task's object goes onto its free list */
#ifdef QHT
  create_thread_object(&q, &thrd, &data);
#else
  create_thread_object(&q, &thrd, &data, &lk);
#endif
  if (g_reused == &victim) { VX_REACH("victim_reused"); if (q.parameters_.small_stacksize_ == q.parameters_.large_stacksize_) VX_REACH("victim_reused_with_equal_sizes"); }
  if (g_rebinds == 1 && g_reused != &victim) VX_REACH("other_object_reused");
  if (g_creates == 1) { VX_REACH("new_object"); if (g_created_stackless) VX_REACH("new_stackless_object"); }
#endif
}
