import re

from vx.lift import Lift, Sub, Call, Members, Guard, DropStmt, Rule, LiftError, match_close, split_args
from vx.run import Unit

PU = "libs/pika/coroutines/include/pika/coroutines/detail/posix_utility.hpp"
CX = "libs/pika/coroutines/include/pika/coroutines/detail/context_linux_x86.hpp"


# ---------------------------------------------------------------------------------------------------------------
# local helper rules (all purely syntactic)


class CtorInit(Rule):
    """Constructor fragment `Name(params) : a(e1), b{e2}, Base(args) { BODY }`  ->  `{ self->a = (e1); self->b = (e2);
    <base template>; { BODY } }`.  The header up to the ':' of the mem-initialiser list is dropped (the C signature is
    hand written).  An initialiser whose name is neither a listed member nor a listed base class is an extraction failure;
    `m()` (value initialisation) becomes `VX_VALUE_INIT(self->m);`.  Order of initialisers is kept as written; class-type
    members that the list does not mention get their default construction (`defaults`) appended."""

    def __init__(self, members, bases=None, obj="self", defaults=None):
        self.members, self.bases, self.obj, self.n = list(members), dict(bases or {}), obj, 1
        self.defaults = dict(defaults or {})  # class-type members: default construction when not mentioned in the list

    def apply(self, text):
        i = text.find("(")
        if i < 0:
            raise LiftError("CtorInit: no parameter list")
        j = match_close(text, i) + 1
        m = re.match(r"\s*:(?!:)", text[j:])
        if not m:
            raise LiftError("CtorInit: no mem-initialiser list after the parameter list")
        j += m.end()
        out = []
        seen = []
        n = len(text)
        while True:
            m = re.match(r"\s*([A-Za-z_][\w:]*)\s*([({])", text[j:])
            if not m:
                raise LiftError("CtorInit: cannot parse initialiser at %r" % text[j:j + 40])
            name, op = m.group(1), m.group(2)
            o = j + m.end() - 1
            c = match_close(text, o, op, ")" if op == "(" else "}")
            arg = text[o + 1:c].strip()
            if name in self.members:
                out.append("VX_VALUE_INIT(%s->%s);" % (self.obj, name) if arg == "" else "%s->%s = (%s);" % (self.obj, name, arg))
            elif name in self.bases:
                out.append(self.bases[name].replace("{args}", arg))
            else:
                raise LiftError("CtorInit: initialiser '%s' is neither a listed member nor a listed base" % name)
            seen.append(name)
            j = c + 1
            m = re.match(r"\s*,", text[j:])
            if m:
                j += m.end()
                continue
            m = re.match(r"\s*\{", text[j:])
            if not m:
                raise LiftError("CtorInit: expected ',' or the constructor body at %r" % text[j:j + 40])
            bo = j + m.end() - 1
            bc = match_close(text, bo, "{", "}")
            if text[bc + 1:].strip():
                raise LiftError("CtorInit: text after the constructor body")
            body = text[bo:bc + 1]
            break
        for mname, text_ in self.defaults.items():
            if mname not in seen:
                out.append(text_)
        return "{ " + " ".join(out) + " " + body + " }"


class Call0(Call):
    """Call with n=None ("any number of times") but WITHOUT the fixed-point re-scan of vx.lift.Call (the replacement text
    contains the head again).  Copied from specs/C19/spec.py."""

    def __init__(self, head, template, stmt=False):
        Call.__init__(self, head, template, None, stmt)

    def apply(self, text):
        self._nested = True
        return Call.apply(self, text)


def throw_rt(ret, n=None):
    """throw std::runtime_error(...);  ->  exception in flight, leave the function.  Fire count free: a dropped throw must
    show up as a failed obligation, not as an extraction failure."""
    return Call0(r"\bthrow\s+std::runtime_error", "{ vx_exc = true; return%s; }" % ret, stmt=True)


def may_throw(name, ret, n=None):
    """statement call of a (lifted) function that may throw: leave the function if an exception is in flight"""
    return Call0(r"(?<![\w:.>])(%s)" % name, "{ {h1}({args}); if (vx_exc) return%s; }" % ret, stmt=True)


ERRMSG = lambda n: Sub(r"std::string\s+error_message\s*=[^;]*;", "", None)           # message building (std::string, strerror)
SYSCALL = lambda n: Sub(r"::(mmap|mprotect|madvise|munmap)\s*\(", r"vx_\1(", None)   # system calls -> recording stubs
REINTERPRET = Sub(r"\breinterpret_cast\s*<([^<>]*)>\s*\(", r"(\1)(", None)
DIGITSEP = Sub(r"\b0[xX][0-9A-Fa-f']+", lambda m: m.group(0).replace("'", ""), None)  # 0xDEAD'BEEF -> 0xDEADBEEF
NOPOSIX = lambda n: Sub(r"\bposix::", "", n)
THIS = lambda n: Sub(r"\bthis\b", "self", None)
CTXM = Members(["m_stack", "m_stack_size", "m_sp"], optional=["m_stack", "m_stack_size", "m_sp"])

# ---------------------------------------------------------------------------------------------------------------
# unit group 1: stack geometry


def stack_lifts():
    return {
        # `# if !defined(PIKA_EXEC_PAGESIZE) / # define PIKA_EXEC_PAGESIZE EXEC_PAGESIZE / # endif`
        "pagesize": Lift(PU, r"#\s*if !defined\(PIKA_EXEC_PAGESIZE\)", fragment_end=r"#\s*endif", rules=[
            Sub(r"#\s*define\s+PIKA_EXEC_PAGESIZE\s+\w+", lambda m: m.group(0), 1)], generic=False),
        "check_stack_size": Lift(PU, r"inline void check_stack_size\(std::size_t size\)", rules=[throw_rt("", 2)]),
        "to_stack_with_guard_page": Lift(PU, r"inline void\* to_stack_with_guard_page\(void\* stack\)"),
        "to_stack_without_guard_page": Lift(PU, r"inline void\* to_stack_without_guard_page\(void\* stack\)"),
        "add_guard_page": Lift(PU, r"inline void add_guard_page\(void\* stack\)", rules=[SYSCALL(1), ERRMSG(1), throw_rt("", 1)]),
        "stack_size_with_guard_page": Lift(PU, r"inline std::size_t stack_size_with_guard_page\(std::size_t size\)"),
        "alloc_stack": Lift(PU, r"inline void\* alloc_stack\(std::size_t size\)", which=0, expect=2, rules=[
            SYSCALL(1), ERRMSG(1), throw_rt(" 0", 2), may_throw("check_stack_size", " 0"), may_throw("add_guard_page", " 0")]),
        "watermark_stack": Lift(PU, r"inline void watermark_stack\(void\* stack, std::size_t size\)", rules=[REINTERPRET, DIGITSEP]),
        "reset_stack": Lift(PU, r"inline bool reset_stack\(void\* stack, std::size_t size\)", rules=[
            SYSCALL(1), ERRMSG(1), throw_rt(" 0", 1), REINTERPRET, DIGITSEP]),
        "free_stack": Lift(PU, r"inline void free_stack\(void\* stack, std::size_t size\)", rules=[SYSCALL(1), ERRMSG(1), throw_rt("", 1)]),
        # ---- x86_linux_context_impl<CoroutineImpl>
        "default_stack_size": Lift(CX, r"enum\s*\{\s*default_stack_size", fragment_end=r"\}\s*;"),
        "layout": Lift(CX, r"private:\s*#\s*if defined\(__x86_64__\)", fragment_end=r"funp_idx = \d+;\s*#\s*endif",
                       rules=[Sub(r"private:", "", 1)]),
        "ctx_ctor": Lift(CX, r"explicit x86_linux_context_impl\(std::ptrdiff_t stack_size = -1\)", fragment_end=r"\{\s*\}",
                         rules=[CtorInit(["m_stack_size", "m_stack"])]),
        "ctx_init": Lift(CX, r"void init\(\)", rules=[
            NOPOSIX(2),
            Sub(r"(\w+) = (alloc_stack\([^;]*\));", r"{ void *vx_t = \2; if (vx_exc) return; \1 = vx_t; }", 1),
            throw_rt("", 1),
            Sub(r"using (\w+) = void\(void\*\);", r"typedef void \1(void*);", 1),
            Sub(r"\btrampoline<CoroutineImpl>", "trampoline_CoroutineImpl", 1),
            THIS(1), REINTERPRET, CTXM]),
        "ctx_dtor": Lift(CX, r"~x86_linux_context_impl\(\)", rules=[NOPOSIX(1), CTXM]),
        "ctx_reset_stack": Lift(CX, r"void reset_stack\(\)", rules=[NOPOSIX(1), CTXM]),
        "ctx_rebind_stack": Lift(CX, r"void rebind_stack\(\)", rules=[
            Sub(r"using (\w+) = void\(void\*\);", r"typedef void \1(void*);", 1),
            Sub(r"\btrampoline<CoroutineImpl>", "trampoline_CoroutineImpl", 1),
            THIS(1), REINTERPRET, CTXM]),
        "ctx_available": Lift(CX, r"std::ptrdiff_t get_available_stack_space\(\)", rules=[REINTERPRET, CTXM]),
    }


PUF = PU + ": threads::coroutines::detail::posix::"
CXF = CX + ": threads::coroutines::detail::lx::x86_linux_context_impl<CoroutineImpl>::"
OVF = ["--unsigned-overflow-check", "--conversion-check"]


def sunit(name, define, enforce=None, funcs=(), doc="", kind="proof", defines=(), flags=OVF, min_obligations=5):
    return Unit(name, "stack.c", defines=[define] + list(defines), enforce=enforce, lifts=stack_lifts(), kind=kind,
                funcs=list(funcs), doc=doc, extra_flags=list(flags), min_obligations=min_obligations)


UNITS = [
    sunit("stack.check_stack_size", "U_CHECK_STACK_SIZE", "check_stack_size", [PUF + "check_stack_size"],
          "F: rejects exactly 0 and the non-multiples of the page size; full size_t domain"),
    sunit("stack.guard_roundtrip", "U_GUARD_ROUNDTRIP", None,
          [PUF + "to_stack_with_guard_page, to_stack_without_guard_page, stack_size_with_guard_page"], kind="lemma",
          doc="lemma: the two conversions are inverse to each other (guard pages on and off), the step equals the guard size"),
    sunit("stack.alloc_stack", "U_ALLOC_STACK", "alloc_stack",
          [PUF + "alloc_stack, check_stack_size, stack_size_with_guard_page, add_guard_page, to_stack_without_guard_page"],
          "F: [p, p+size) inside the one mapping, guard region exists when guard pages are on and is disjoint from the stack; "
          "sizes 0 .. PTRDIFF_MAX with unsigned-overflow and conversion checks on", min_obligations=30),
    sunit("stack.alloc_stack.anysize", "U_ALLOC_STACK", "alloc_stack", [PUF + "alloc_stack (full size_t domain)"],
          "same contract for EVERY size_t (a negative configured size arrives as a value above PTRDIFF_MAX): wrap-around "
          "semantics, unsigned-overflow/conversion checks off; no stack with wrong geometry is ever handed out",
          defines=["SIZE_RANGE_ANY"], flags=[], min_obligations=30),
    sunit("stack.alloc_free", "U_ALLOC_FREE", None, [PUF + "alloc_stack, free_stack, to_stack_with_guard_page"], kind="lemma",
          doc="lemma: free_stack(alloc_stack(size), size) unmaps exactly the mapped region"),
    sunit("stack.watermark_stack", "U_WATERMARK_STACK", "watermark_stack", [PUF + "watermark_stack"],
          "F: the watermark word lies inside the stack (stack = object of exactly `size` bytes)", min_obligations=10),
    sunit("stack.reset_stack", "U_RESET_STACK", "reset_stack", [PUF + "reset_stack"],
          "F: the inspected word lies inside the stack; the madvise range lies inside the stack and spares the top page",
          min_obligations=15),
    sunit("stack.watermark_reset", "U_WATERMARK_RESET", None, [PUF + "watermark_stack, reset_stack"], kind="lemma",
          doc="lemma: reset_stack inspects the word watermark_stack wrote"),
    sunit("ctx.ctor", "U_CTX_CTOR", "ctx_ctor", [CXF + "x86_linux_context_impl (mem-initialiser list), default_stack_size"],
          "F: m_stack_size is the requested size (or an acceptable default for -1), no stack yet"),
    sunit("ctx.init", "U_CTX_INIT", "ctx_init", [CXF + "init", PUF + "alloc_stack, watermark_stack"],
          "F: init keeps an existing stack; otherwise stack inside one fresh mapping, disjoint from the guard region, initial "
          "frame inside the stack; m_stack_size in 1 .. PTRDIFF_MAX with overflow checks on", min_obligations=40),
    sunit("ctx.init.anysize", "U_CTX_INIT", "ctx_init", [CXF + "init (every std::ptrdiff_t m_stack_size)"],
          "same contract for every std::ptrdiff_t m_stack_size including negative ones (wrap-around semantics)",
          defines=["SIZE_RANGE_ANY"], flags=[], min_obligations=40),
    sunit("ctx.init_dtor", "U_CTX_INIT_DTOR", None, [CXF + "x86_linux_context_impl, init, ~x86_linux_context_impl", PUF + "free_stack"],
          kind="lemma", doc="lemma: the destructor unmaps exactly what init mapped; nothing if there is no stack"),
    sunit("ctx.reset_stack", "U_CTX_RESET_STACK", "ctx_reset_stack", [CXF + "reset_stack", PUF + "reset_stack"],
          "F: as stack.reset_stack, through the context", min_obligations=15),
    sunit("ctx.rebind_stack", "U_CTX_REBIND_STACK", "ctx_rebind_stack", [CXF + "rebind_stack, init"],
          "F: a recycled context gets the same initial frame (stack pointer, entry slots) as init() gives a new one on the same stack",
          min_obligations=15),
    sunit("ctx.available_stack_space", "U_CTX_AVAILABLE", "ctx_get_available_stack_space", [CXF + "get_available_stack_space"],
          "F: never reports more room than lies between the stack base and the current stack pointer"),
]

# ---------------------------------------------------------------------------------------------------------------
# unit group 3a: thread_data::rebind_base == thread_data::thread_data on the per-task fields

TD = "libs/pika/threading_base/src/thread_data.cpp"
TDH = "libs/pika/threading_base/include/pika/threading_base/thread_data.hpp"
TID = "libs/pika/coroutines/include/pika/coroutines/thread_id_type.hpp"

TD_MEMBERS = ["current_state_", "priority_", "requested_interrupt_", "enabled_interrupt_", "ran_exit_funcs_", "is_stackless_",
              "exit_funcs_", "scheduler_base_", "last_worker_thread_num_", "stacksize_", "stacksize_enum_", "queue_"]
ENUMS = [
    Sub(r"(?:\w+::)*thread_(restart_state|schedule_state|stacksize|id_addref)::(\w+)", r"thread_\1_\2", None),
]
TD_COMMON = ENUMS + [
    Call(r"(?<![\w:])thread_state", "thread_state_make({args})", None),   # combined_tagged_state(state, state_ex) constructor
    Sub(r"\bstd::size_t\(", "(size_t)(", None),                            # functional cast
    Sub(r"\binit_data\.", "init_data->", None),                            # reference parameter
    Sub(r"\bexit_funcs_\.(empty|clear)\(\)", r"flist_\1(&self->exit_funcs_)", None),
]
# std::lock_guard<spinlock> l(spinlock_pool::spinlock_for(this));
TD_LOCK = Guard(r"std::(?:unique_lock|lock_guard|scoped_lock)\s*(?:<[^;()]*>)?\s*(\w+)\s*\(\s*spinlock_pool::spinlock_for\(this\)\s*\)\s*;",
                r"vx_lock();", r"vx_unlock();", None)


def recycle_lifts():
    return {
        "refcount_ctor": Lift(TID, r"explicit thread_data_reference_counting\(thread_id_addref addref = thread_id_addref::yes\)",
                              fragment_end=r"\{\s*\}", rules=ENUMS + [CtorInit(["count_"])]),
        "get_stack_size": Lift(TDH, r"std::ptrdiff_t get_stack_size\(\) const noexcept", rules=[Members(["stacksize_"])]),
        "free_thread_exit_callbacks": Lift(TD, r"void thread_data::free_thread_exit_callbacks\(", rules=[TD_LOCK] + TD_COMMON + [
            Members(TD_MEMBERS, optional=TD_MEMBERS)]),
        "ctor": Lift(TD, r"thread_data::thread_data\(thread_init_data& init_data, void\* queue, std::ptrdiff_t stacksize,\s*bool is_stackless, thread_id_addref addref\)",
                     fragment_end=r"\}(?=\s*thread_data::~thread_data\(\))", rules=TD_COMMON + [
            CtorInit(TD_MEMBERS, bases={"thread_data_reference_counting": "refcount_ctor(self, {args});"},
                     defaults={"exit_funcs_": "flist_default_ctor(&self->exit_funcs_);"}),
            Members(TD_MEMBERS, optional=TD_MEMBERS)]),
        "rebind_base": Lift(TD, r"void thread_data::rebind_base\(thread_init_data& init_data\)", rules=TD_COMMON + [
            Call(r"\b(current_state_|last_worker_thread_num_)\.store", "self->{h1} = ({0})", None),   # std::atomic<T>::store
            Sub(r"(?<![\w.>:])(free_thread_exit_callbacks|get_stack_size)\(\)", r"\1(self)", None),
            Members(TD_MEMBERS, optional=TD_MEMBERS)]),
    }


TDF = TD + ": threads::detail::thread_data::"
UNITS += [
    Unit("recycle.rebind_base", "recycle.c", enforce="rebind_base", lifts=recycle_lifts(),
         funcs=[TDF + "rebind_base, thread_data (constructor: mem-initialiser list and body), free_thread_exit_callbacks",
                TDH + ": thread_data::get_stack_size", TID + ": thread_data_reference_counting (constructor)"],
         doc="I: after rebind_base the per-task fields are field-wise what the constructor produces for the same init data; "
             "stack size, queue, stackless-ness and reference count are outside the frame",
         min_obligations=30),
]

META = {
    "trusted_base": [
        "specs/C12/stack.c vx_mmap: the kernel's mmap fails for len == 0 (EINVAL) and for len > 2^47 (x86-64 user address space) "
        "and otherwise returns a fresh region of exactly len bytes (modelled as a fresh object; disjointness of distinct mappings "
        "is the kernel's); vx_mprotect/vx_madvise/vx_munmap record (address, length) and may fail",
        "EXEC_PAGESIZE of the build platform (<sys/param.h>, 4096) -- the same header posix_utility.hpp reads",
        "make_stack(): harness input domain of the units that start from an existing stack = an object of exactly `size` bytes, "
        "size a positive page multiple <= 2^47",
    ],
    "assumptions": [
        "posix::use_guard_pages does not change between alloc_stack and free_stack of one stack (it is written once in init_runtime)",
        "C++ exceptions are lowered to a flag + early return; destructors of locals on those paths are trivial in the lifted functions",
    ],
    "not_decided": [
        "register / FP state and stack CONTENTS across swapcontext_stack (inline assembly in context_linux_x86.hpp and the .S file): no C semantics",
        "that the 12-word frame laid out by init()/rebind_stack() is what the assembly pops (layout constants are taken as declared)",
        "disjointness of two different mmap results (kernel)", "identity of a task across migration between workers",
        "context_generic_context.hpp (Boost.Context) and context_posix.hpp (ucontext): not active in this build",
    ],
}
