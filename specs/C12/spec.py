import re

from vx.lift import Lift, Sub, Call, Members, Guard, DropStmt, Rule, TryCatch, LiftError, match_close, split_args
from vx.run import Unit

PU = "libs/pika/coroutines/include/pika/coroutines/detail/posix_utility.hpp"
CX = "libs/pika/coroutines/include/pika/coroutines/detail/context_linux_x86.hpp"


# ---------------------------------------------------------------------------------------------------------------
# local helper rules (all purely syntactic)


class CtorInit(Rule):
    """Constructor fragment `Name(params) : a(e1), b{e2}, Base(args) { BODY }`  ->  `{ self->a = (e1); self->b = (e2);
    <base template>; { BODY } }`.  The header up to the ':' of the mem-initialiser list is dropped (the C signature is
    hand written).  An initialiser whose name is neither a listed member nor a listed base class is an extraction failure;
    `m()` (value initialisation) becomes `VX_VALUE_INIT(self->m);`.  Order of initialisers is kept as written; class-type
    members that the list does not mention get their default construction (`defaults`) appended."""

    def __init__(self, members, bases=None, obj="self", defaults=None, ctors=None):
        self.members, self.bases, self.obj, self.n = list(members), dict(bases or {}), obj, 1
        self.ctors = dict(ctors or {})        # members of class type: constructor call spelling, e.g. pair(a, b) -> make(a, b)
        self.defaults = dict(defaults or {})  # class-type members: default construction when not mentioned in the list

    def apply(self, text):
        i = text.find("(")
        if i < 0:
            raise LiftError("CtorInit: no parameter list")
        j = match_close(text, i) + 1
        m = re.match(r"\s*:(?!:)", text[j:])
        if not m:
            raise LiftError("CtorInit: no mem-initialiser list after the parameter list")
        j += m.end()
        out = []
        seen = []
        n = len(text)
        while True:
            m = re.match(r"\s*([A-Za-z_][\w:]*)\s*([({])", text[j:])
            if not m:
                raise LiftError("CtorInit: cannot parse initialiser at %r" % text[j:j + 40])
            name, op = m.group(1), m.group(2)
            o = j + m.end() - 1
            c = match_close(text, o, op, ")" if op == "(" else "}")
            arg = text[o + 1:c].strip()
            if name in self.members and name in self.ctors and arg != "":
                out.append("%s->%s = %s;" % (self.obj, name, self.ctors[name].replace("{args}", arg)))
            elif name in self.members:
                out.append("VX_VALUE_INIT(%s->%s);" % (self.obj, name) if arg == "" else "%s->%s = (%s);" % (self.obj, name, arg))
            elif name in self.bases:
                out.append(self.bases[name].replace("{args}", arg))
            else:
                raise LiftError("CtorInit: initialiser '%s' is neither a listed member nor a listed base" % name)
            seen.append(name)
            j = c + 1
            m = re.match(r"\s*,", text[j:])
            if m:
                j += m.end()
                continue
            m = re.match(r"\s*\{", text[j:])
            if not m:
                raise LiftError("CtorInit: expected ',' or the constructor body at %r" % text[j:j + 40])
            bo = j + m.end() - 1
            bc = match_close(text, bo, "{", "}")
            if text[bc + 1:].strip():
                raise LiftError("CtorInit: text after the constructor body")
            body = text[bo:bc + 1]
            break
        for mname, text_ in self.defaults.items():
            if mname not in seen:
                out.append(text_)
        return "{ " + " ".join(out) + " " + body + " }"


class Call0(Call):
    """Call with n=None ("any number of times") but WITHOUT the fixed-point re-scan of vx.lift.Call (the replacement text
    contains the head again).  Copied from specs/C19/spec.py."""

    def __init__(self, head, template, stmt=False):
        Call.__init__(self, head, template, None, stmt)

    def apply(self, text):
        self._nested = True
        return Call.apply(self, text)


def throw_rt(ret, n=None):
    """throw std::runtime_error(...);  ->  exception in flight, leave the function.  Fire count free: a dropped throw must
    show up as a failed obligation, not as an extraction failure."""
    return Call0(r"\bthrow\s+std::runtime_error", "{ vx_exc = true; return%s; }" % ret, stmt=True)


def may_throw(name, ret, n=None):
    """statement call of a (lifted) function that may throw: leave the function if an exception is in flight"""
    return Call0(r"(?<![\w:.>])(%s)" % name, "{ {h1}({args}); if (vx_exc) return%s; }" % ret, stmt=True)


ERRMSG = lambda n: Sub(r"std::string\s+error_message\s*=[^;]*;", "", None)           # message building (std::string, strerror)
SYSCALL = lambda n: Sub(r"::(mmap|mprotect|madvise|munmap)\s*\(", r"vx_\1(", None)   # system calls -> recording stubs
REINTERPRET = Sub(r"\breinterpret_cast\s*<([^<>]*)>\s*\(", r"(\1)(", None)
DIGITSEP = Sub(r"\b0[xX][0-9A-Fa-f']+", lambda m: m.group(0).replace("'", ""), None)  # 0xDEAD'BEEF -> 0xDEADBEEF
NOPOSIX = lambda n: Sub(r"\bposix::", "", n)
THIS = lambda n: Sub(r"\bthis\b", "self", None)
CTXM = Members(["m_stack", "m_stack_size", "m_sp"], optional=["m_stack", "m_stack_size", "m_sp"])

# ---------------------------------------------------------------------------------------------------------------
# unit group 1: stack geometry


def stack_lifts():
    return {
        # `# if !defined(PIKA_EXEC_PAGESIZE) / # define PIKA_EXEC_PAGESIZE EXEC_PAGESIZE / # endif`
        "pagesize": Lift(PU, r"#\s*if !defined\(PIKA_EXEC_PAGESIZE\)", fragment_end=r"#\s*endif", rules=[
            Sub(r"#\s*define\s+PIKA_EXEC_PAGESIZE\s+\w+", lambda m: m.group(0), 1)], generic=False),
        "check_stack_size": Lift(PU, r"inline void check_stack_size\(std::size_t size\)", rules=[throw_rt("", 2)]),
        "to_stack_with_guard_page": Lift(PU, r"inline void\* to_stack_with_guard_page\(void\* stack\)"),
        "to_stack_without_guard_page": Lift(PU, r"inline void\* to_stack_without_guard_page\(void\* stack\)"),
        "add_guard_page": Lift(PU, r"inline void add_guard_page\(void\* stack\)", rules=[SYSCALL(1), ERRMSG(1), throw_rt("", 1)]),
        "stack_size_with_guard_page": Lift(PU, r"inline std::size_t stack_size_with_guard_page\(std::size_t size\)"),
        "alloc_stack": Lift(PU, r"inline void\* alloc_stack\(std::size_t size\)", which=0, expect=2, rules=[
            SYSCALL(1), ERRMSG(1), throw_rt(" 0", 2), may_throw("check_stack_size", " 0"), may_throw("add_guard_page", " 0")]),
        "watermark_stack": Lift(PU, r"inline void watermark_stack\(void\* stack, std::size_t size\)", rules=[REINTERPRET, DIGITSEP]),
        "reset_stack": Lift(PU, r"inline bool reset_stack\(void\* stack, std::size_t size\)", rules=[
            SYSCALL(1), ERRMSG(1), throw_rt(" 0", 1), REINTERPRET, DIGITSEP]),
        "free_stack": Lift(PU, r"inline void free_stack\(void\* stack, std::size_t size\)", rules=[SYSCALL(1), ERRMSG(1), throw_rt("", 1)]),
        # ---- x86_linux_context_impl<CoroutineImpl>
        "default_stack_size": Lift(CX, r"enum\s*\{\s*default_stack_size", fragment_end=r"\}\s*;"),
        "layout": Lift(CX, r"private:\s*#\s*if defined\(__x86_64__\)", fragment_end=r"funp_idx = \d+;\s*#\s*endif",
                       rules=[Sub(r"private:", "", 1)]),
        "ctx_ctor": Lift(CX, r"explicit x86_linux_context_impl\(std::ptrdiff_t stack_size = -1\)", fragment_end=r"\{\s*\}",
                         rules=[CtorInit(["m_stack_size", "m_stack"])]),
        "ctx_init": Lift(CX, r"void init\(\)", rules=[
            NOPOSIX(2),
            Sub(r"(\w+) = (alloc_stack\([^;]*\));", r"{ void *vx_t = \2; if (vx_exc) return; \1 = vx_t; }", 1),
            throw_rt("", 1),
            Sub(r"using (\w+) = void\(void\*\);", r"typedef void \1(void*);", 1),
            Sub(r"\btrampoline<CoroutineImpl>", "trampoline_CoroutineImpl", 1),
            THIS(1), REINTERPRET, CTXM]),
        "ctx_dtor": Lift(CX, r"~x86_linux_context_impl\(\)", rules=[NOPOSIX(1), CTXM]),
        "ctx_reset_stack": Lift(CX, r"void reset_stack\(\)", rules=[NOPOSIX(1), CTXM]),
        "ctx_rebind_stack": Lift(CX, r"void rebind_stack\(\)", rules=[
            Sub(r"using (\w+) = void\(void\*\);", r"typedef void \1(void*);", 1),
            Sub(r"\btrampoline<CoroutineImpl>", "trampoline_CoroutineImpl", 1),
            THIS(1), REINTERPRET, CTXM]),
        "ctx_available": Lift(CX, r"std::ptrdiff_t get_available_stack_space\(\)", rules=[REINTERPRET, CTXM]),
    }


PUF = PU + ": threads::coroutines::detail::posix::"
CXF = CX + ": threads::coroutines::detail::lx::x86_linux_context_impl<CoroutineImpl>::"
OVF = ["--unsigned-overflow-check", "--conversion-check"]


def sunit(name, define, enforce=None, funcs=(), doc="", kind="proof", defines=(), flags=OVF, min_obligations=5):
    # CaDiCaL: MiniSat hangs on the pointer arithmetic of ctx.init as soon as the stack-top computation is spelled with named
    # temporaries (a behaviour-preserving edit); CaDiCaL decides both spellings in seconds
    return Unit(name, "stack.c", defines=[define] + list(defines), enforce=enforce, lifts=stack_lifts(), kind=kind,
                funcs=list(funcs), doc=doc, extra_flags=list(flags), min_obligations=min_obligations,
                solver=["--sat-solver", "cadical"] if name.startswith("ctx.init") else None)


UNITS = [
    sunit("stack.check_stack_size", "U_CHECK_STACK_SIZE", "check_stack_size", [PUF + "check_stack_size"],
          "F: rejects exactly 0 and the non-multiples of the page size; full size_t domain"),
    sunit("stack.guard_roundtrip", "U_GUARD_ROUNDTRIP", None,
          [PUF + "to_stack_with_guard_page, to_stack_without_guard_page, stack_size_with_guard_page"], kind="lemma",
          doc="lemma: the two conversions are inverse to each other (guard pages on and off), the step equals the guard size"),
    sunit("stack.alloc_stack", "U_ALLOC_STACK", "alloc_stack",
          [PUF + "alloc_stack, check_stack_size, stack_size_with_guard_page, add_guard_page, to_stack_without_guard_page"],
          "F: [p, p+size) inside the one mapping, guard region exists when guard pages are on and is disjoint from the stack; "
          "sizes 0 .. PTRDIFF_MAX with unsigned-overflow and conversion checks on", min_obligations=30),
    sunit("stack.alloc_stack.anysize", "U_ALLOC_STACK", "alloc_stack", [PUF + "alloc_stack (full size_t domain)"],
          "same contract for EVERY size_t (a negative configured size arrives as a value above PTRDIFF_MAX): wrap-around "
          "semantics, unsigned-overflow/conversion checks off; no stack with wrong geometry is ever handed out",
          defines=["SIZE_RANGE_ANY"], flags=[], min_obligations=30),
    sunit("stack.alloc_free", "U_ALLOC_FREE", None, [PUF + "alloc_stack, free_stack, to_stack_with_guard_page"], kind="lemma",
          doc="lemma: free_stack(alloc_stack(size), size) unmaps exactly the mapped region"),
    sunit("stack.watermark_stack", "U_WATERMARK_STACK", "watermark_stack", [PUF + "watermark_stack"],
          "F: the watermark word lies inside the stack (stack = object of exactly `size` bytes)", min_obligations=10),
    sunit("stack.reset_stack", "U_RESET_STACK", "reset_stack", [PUF + "reset_stack"],
          "F: the inspected word lies inside the stack; the madvise range lies inside the stack and spares the top page",
          min_obligations=15),
    sunit("stack.watermark_reset", "U_WATERMARK_RESET", None, [PUF + "watermark_stack, reset_stack"], kind="lemma",
          doc="lemma: reset_stack inspects the word watermark_stack wrote"),
    sunit("ctx.ctor", "U_CTX_CTOR", "ctx_ctor", [CXF + "x86_linux_context_impl (mem-initialiser list), default_stack_size"],
          "F: m_stack_size is the requested size (or an acceptable default for -1), no stack yet"),
    sunit("ctx.init", "U_CTX_INIT", "ctx_init", [CXF + "init", PUF + "alloc_stack, watermark_stack"],
          "F: init keeps an existing stack; otherwise stack inside one fresh mapping, disjoint from the guard region, initial "
          "frame inside the stack; m_stack_size in 1 .. PTRDIFF_MAX with overflow checks on", min_obligations=40),
    sunit("ctx.init.anysize", "U_CTX_INIT", "ctx_init", [CXF + "init (every std::ptrdiff_t m_stack_size)"],
          "same contract for every std::ptrdiff_t m_stack_size including negative ones (wrap-around semantics)",
          defines=["SIZE_RANGE_ANY"], flags=[], min_obligations=40),
    sunit("ctx.init_dtor", "U_CTX_INIT_DTOR", None, [CXF + "x86_linux_context_impl, init, ~x86_linux_context_impl", PUF + "free_stack"],
          kind="lemma", doc="lemma: the destructor unmaps exactly what init mapped; nothing if there is no stack"),
    sunit("ctx.reset_stack", "U_CTX_RESET_STACK", "ctx_reset_stack", [CXF + "reset_stack", PUF + "reset_stack"],
          "F: as stack.reset_stack, through the context", min_obligations=15),
    sunit("ctx.rebind_stack", "U_CTX_REBIND_STACK", "ctx_rebind_stack", [CXF + "rebind_stack, init"],
          "F: a recycled context gets the same initial frame (stack pointer, entry slots) as init() gives a new one on the same stack",
          min_obligations=15),
    sunit("ctx.available_stack_space", "U_CTX_AVAILABLE", "ctx_get_available_stack_space", [CXF + "get_available_stack_space"],
          "F: never reports more room than lies between the stack base and the current stack pointer"),
]

# ---------------------------------------------------------------------------------------------------------------
# unit group 3a: thread_data::rebind_base == thread_data::thread_data on the per-task fields

TD = "libs/pika/threading_base/src/thread_data.cpp"
TDH = "libs/pika/threading_base/include/pika/threading_base/thread_data.hpp"
TID = "libs/pika/coroutines/include/pika/coroutines/thread_id_type.hpp"

TD_MEMBERS = ["current_state_", "priority_", "requested_interrupt_", "enabled_interrupt_", "ran_exit_funcs_", "is_stackless_",
              "exit_funcs_", "scheduler_base_", "last_worker_thread_num_", "stacksize_", "stacksize_enum_", "queue_"]
ENUMS = [
    Sub(r"(?:\w+::)*thread_(restart_state|schedule_state|stacksize|id_addref)::(\w+)", r"thread_\1_\2", None),
]
TD_COMMON = ENUMS + [
    Call(r"(?<![\w:])thread_state", "thread_state_make({args})", None),   # combined_tagged_state(state, state_ex) constructor
    Sub(r"\bstd::size_t\(", "(size_t)(", None),                            # functional cast
    Sub(r"\binit_data\.", "init_data->", None),                            # reference parameter
    Sub(r"\bexit_funcs_\.(empty|clear)\(\)", r"flist_\1(&self->exit_funcs_)", None),
]
# std::lock_guard<spinlock> l(spinlock_pool::spinlock_for(this));
TD_LOCK = Guard(r"std::(?:unique_lock|lock_guard|scoped_lock)\s*(?:<[^;()]*>)?\s*(\w+)\s*\(\s*spinlock_pool::spinlock_for\(this\)\s*\)\s*;",
                r"vx_lock();", r"vx_unlock();", None)


def recycle_lifts():
    return {
        "refcount_ctor": Lift(TID, r"explicit thread_data_reference_counting\(thread_id_addref addref = thread_id_addref::yes\)",
                              fragment_end=r"\{\s*\}", rules=ENUMS + [CtorInit(["count_"])]),
        "get_stack_size": Lift(TDH, r"std::ptrdiff_t get_stack_size\(\) const noexcept", rules=[Members(["stacksize_"])]),
        "free_thread_exit_callbacks": Lift(TD, r"void thread_data::free_thread_exit_callbacks\(", rules=[TD_LOCK] + TD_COMMON + [
            Members(TD_MEMBERS, optional=TD_MEMBERS)]),
        "ctor": Lift(TD, r"thread_data::thread_data\(thread_init_data& init_data, void\* queue, std::ptrdiff_t stacksize,\s*bool is_stackless, thread_id_addref addref\)",
                     fragment_end=r"\}(?=\s*thread_data::~thread_data\(\))", rules=TD_COMMON + [
            CtorInit(TD_MEMBERS, bases={"thread_data_reference_counting": "refcount_ctor(self, {args});"},
                     defaults={"exit_funcs_": "flist_default_ctor(&self->exit_funcs_);"}),
            Members(TD_MEMBERS, optional=TD_MEMBERS)]),
        "rebind_base": Lift(TD, r"void thread_data::rebind_base\(thread_init_data& init_data\)", rules=TD_COMMON + [
            Call(r"\b(current_state_|last_worker_thread_num_)\.store", "self->{h1} = ({0})", None),   # std::atomic<T>::store
            Sub(r"(?<![\w.>:])(free_thread_exit_callbacks|get_stack_size)\(\)", r"\1(self)", None),
            Members(TD_MEMBERS, optional=TD_MEMBERS)]),
    }


TDF = TD + ": threads::detail::thread_data::"
UNITS += [
    Unit("recycle.rebind_base", "recycle.c", enforce="rebind_base", lifts=recycle_lifts(),
         funcs=[TDF + "rebind_base, thread_data (constructor: mem-initialiser list and body), free_thread_exit_callbacks",
                TDH + ": thread_data::get_stack_size", TID + ": thread_data_reference_counting (constructor)"],
         doc="I: after rebind_base the per-task fields are field-wise what the constructor produces for the same init data; "
             "stack size, queue, stackless-ness and reference count are outside the frame",
         min_obligations=30),
]

# ---------------------------------------------------------------------------------------------------------------
# unit group 3b: the coroutine trampoline (clean hand-back on every exit path; exited + rebound == newly constructed)

CI_CPP = "libs/pika/coroutines/src/detail/coroutine_impl.cpp"
CI_HPP = "libs/pika/coroutines/include/pika/coroutines/detail/coroutine_impl.hpp"
CB_HPP = "libs/pika/coroutines/include/pika/coroutines/detail/context_base.hpp"
CS_HPP = "libs/pika/coroutines/include/pika/coroutines/detail/coroutine_self.hpp"
CSS_HPP = "libs/pika/coroutines/include/pika/coroutines/detail/coroutine_stackful_self.hpp"

CO_MEMBERS = ["m_caller", "m_state", "m_exit_state", "m_exit_status", "m_thread_data", "m_type_info", "m_thread_id",
              "continuation_recursion_count_", "m_result", "m_arg", "m_fun"]
COM = Members(CO_MEMBERS, optional=CO_MEMBERS, obj="thiz")


def methods(mapping, obj="thiz"):
    """this->name(args) / this->super_type::name(args) / name(args)  ->  cname(obj[, args])   (member call -> C function)"""
    def tmpl(args, env):
        a = env["args"]
        return "%s(%s%s)" % (mapping[env["h1"]], obj, (", " + a) if a else "")
    return Call0(r"(?<![\w.>:])(?:this->)?(?:super_type::)?(%s)" % "|".join(mapping), tmpl)


CO_SPELL = [
    Sub(r"(?:threads::detail::)?thread_schedule_state::(\w+)", r"thread_schedule_state_\1", None),
    Sub(r"\bthreads::detail::invalid_thread_id\b", "invalid_thread_id", None),
    Sub(r"\bsuper_type::(ctx_\w+)", r"\1", None),
    Call(r"\bresult_type(?=\s*\()", "result_make({args})", None),            # std::pair constructor
    Sub(r"\bstd::exception_ptr\(\)", "exc_null()", None),
    Sub(r"\b(?:coroutine_self::)?local_self\(\)", "g_local_self", None),     # thread_local accessor
    Sub(r"\bcoroutine_self::(set_self|get_self)\(", r"coroutine_self_\1(", None),
]
THIZ = Sub(r"\bthis\b", "thiz", None)

TRAMP_LOOP = """
__CPROVER_assigns(status, result_last, CO_FIELDS(thiz), GHOST)
__CPROVER_loop_invariant(ENTERED(thiz))
__CPROVER_loop_invariant(result_last.first == thread_schedule_state_unknown || result_last.first == thread_schedule_state_terminated)
"""


def tramp_lifts():
    frag_ctor = r"\{\s*\}"
    return {
        "set_self": Lift(CS_HPP, r"static void set_self\(coroutine_self\* self\)", rules=CO_SPELL),
        "get_self": Lift(CS_HPP, r"static coroutine_self\* get_self\(\)", rules=CO_SPELL),
        "coroutine_self_ctor": Lift(CS_HPP, r"explicit coroutine_self\(coroutine_self\* next_self\)", fragment_end=frag_ctor,
                                    rules=[CtorInit(["next_self_"])]),
        "stackful_self_ctor": Lift(CSS_HPP, r"explicit coroutine_stackful_self\(impl_type\* pimpl, coroutine_self\* next_self = nullptr\)",
                                   fragment_end=frag_ctor, rules=[CtorInit(["pimpl_"], bases={"coroutine_self": "coroutine_self_ctor(self, {args});"})]),
        "rsoe_ctor": Lift(CS_HPP, r"reset_self_on_exit\(coroutine_self\* val, coroutine_self\* old_val = nullptr\)", fragment_end=r"\}",
                          rules=CO_SPELL + [CtorInit(["old_self"])]),
        "rsoe_dtor": Lift(CS_HPP, r"~reset_self_on_exit\(\)", which=1, expect=2, rules=CO_SPELL + [Members(["old_self"], optional=["old_self"])]),
        "cb_running": Lift(CB_HPP, r"bool running\(\) const", rules=[COM]),
        "cb_is_ready": Lift(CB_HPP, r"bool is_ready\(\) const", rules=[COM]),
        "cb_ctor": Lift(CB_HPP, r"context_base\(std::ptrdiff_t stack_size, thread_id_type id\)", fragment_end=frag_ctor, rules=[
            CtorInit(CO_MEMBERS, obj="thiz", bases={"base_type": "/* x86_linux_context_impl({args}): unit ctx.ctor */"})]),
        "ci_ctor": Lift(CI_HPP, r"coroutine_impl\(functor_type&& f, thread_id_type id, std::ptrdiff_t stack_size\)", fragment_end=frag_ctor,
                        rules=CO_SPELL + [CtorInit(CO_MEMBERS, obj="thiz", bases={"context_base": "cb_ctor(thiz, {args});"},
                                                   ctors={"m_result": "result_make({args})"})]),
        "cb_reset_tss": Lift(CB_HPP, r"void reset_tss\(\)", rules=[COM], optional=True),
        "cb_reset": Lift(CB_HPP, r"void reset\(\)", rules=[Sub(r"\bm_thread_id\.reset\(\)", "thread_id_reset(&thiz->m_thread_id)", None), COM]),
        "ci_reset": Lift(CI_HPP, r"void reset\(\)", rules=[
            Sub(r"\bm_fun\.reset\(\)", "functor_reset(&thiz->m_fun)", None),
            methods({"reset": "cb_reset", "reset_stack": "ctx_reset_stack"}), COM]),
        "ci_bind_result": Lift(CI_HPP, r"void bind_result\(result_type res\)", rules=CO_SPELL + [COM]),
        "ci_args": Lift(CI_HPP, r"arg_type\* args\(\) noexcept", rules=[COM]),
        "ci_bind_args": Lift(CI_HPP, r"void bind_args\(arg_type\* arg\) noexcept", rules=[COM]),
        "cb_rebind_base": Lift(CB_HPP, r"void rebind_base\(thread_id_type id\)", rules=CO_SPELL + [methods({"running": "cb_running"}), COM]),
        "ci_rebind": Lift(CI_HPP, r"void rebind\(functor_type&& f, thread_id_type id\)", rules=CO_SPELL + [
            methods({"rebind_stack": "ctx_rebind_stack", "rebind_base": "cb_rebind_base"}), COM]),
        "cb_do_yield": Lift(CB_HPP, r"void do_yield\(\) noexcept", rules=[
            Sub(r"\bswap_context\(\*this, m_caller, detail::yield_hint\(\)\)", "swap_context_yield(thiz)", None)]),
        "cb_do_invoke": Lift(CB_HPP, r"void do_invoke\(\) noexcept", rules=[
            Sub(r"\bswap_context\(m_caller, \*this, detail::invoke_hint\(\)\)", "swap_context_invoke(thiz)", None),
            methods({"is_ready": "cb_is_ready"}), COM]),
        "cb_do_return": Lift(CB_HPP, r"void do_return\(context_exit_status status, std::exception_ptr&& info\) noexcept", rules=[
            methods({"do_yield": "cb_do_yield"}), COM]),
        "trampoline": Lift(CI_CPP, r"void coroutine_impl::operator\(\)\(\) noexcept", rules=CO_SPELL + [
            Sub(r"using context_exit_status = [^;]*;", "", 1),
            Sub(r"\bcontext_exit_status\s+(\w+)\s*=", r"int \1 =", None),
            Call(r"\bresult_type\s+(\w+)", "struct result {h1} = result_make({args})", None),
            Sub(r"\bstd::exception_ptr\s+(\w+);", r"struct exc_ptr \1 = exc_null();", None),
            Sub(r"\bcoroutine_self\*\s+(\w+)\s*=", r"struct coroutine_self* \1 =", None),
            Call(r"\bcoroutine_stackful_self\s+(\w+)", "struct coroutine_self {h1}; coroutine_stackful_self_ctor(&{h1}, {args})", None),
            Guard(r"\breset_self_on_exit\s+(\w+)\(([^;]*)\);", r"struct reset_self_on_exit \1; reset_self_on_exit_ctor(&\1, \2);",
                  r"reset_self_on_exit_dtor(&\1);", None),
            # the call of the user's thread function: may throw; the assignment happens only if it returns
            Sub(r"(\w+) = m_fun\(([^;]*)\);", r"{ struct result vx_t = functor_call(thiz, \2); if (g_threw) VX_THROW_NOW; \1 = vx_t; }", None),
            Sub(r"\bstd::current_exception\(\)", "exc_current()", None),
            methods({"reset_tss": "cb_reset_tss", "reset": "ci_reset", "bind_result": "ci_bind_result", "do_return": "cb_do_return",
                     "args": "ci_args"}),
            TryCatch(None), THIZ], loops={1: TRAMP_LOOP, "count": 1}),
    }


UNITS += [
    Unit("recycle.trampoline", "tramp.c", enforce="trampoline", lifts=tramp_lifts(),
         funcs=[CI_CPP + ": coroutines::detail::coroutine_impl::operator()",
                CI_HPP + ": coroutine_impl::coroutine_impl, reset, rebind, bind_result, args, bind_args",
                CB_HPP + ": context_base::context_base, reset_tss, reset, rebind_base, do_return, do_yield, do_invoke, running, is_ready",
                CS_HPP + ": coroutine_self::coroutine_self, set_self, get_self, reset_self_on_exit::reset_self_on_exit, ~reset_self_on_exit",
                CSS_HPP + ": coroutine_stackful_self::coroutine_stackful_self"],
         doc="T+I: at every transfer of control back to the scheduler (normal return and exception) task-local data, id, function, "
             "argument are cleared and local_self is restored; the exited coroutine + rebind is field-wise a newly constructed one; "
             "loop contract: every re-entry after rebind+invoke satisfies the entry state again",
         min_obligations=60),
]

# ---------------------------------------------------------------------------------------------------------------
# unit group 2: stack-size class -> free list consistency of thread_queue

TQ = "libs/pika/schedulers/include/pika/schedulers/thread_queue.hpp"
TQ_MEMBERS = ["parameters_", "thread_heap_small_", "thread_heap_medium_", "thread_heap_large_", "thread_heap_huge_", "thread_heap_nostack_"]


def _tid_method(args, env):
    # get_thread_id_data(x)->name(args)  ->  thread_name(x[, args])
    a = env["args"]
    return "thread_%s(%s%s)" % (env["h2"], env["h1"], (", " + a) if a else "")


TQ_RULES = [
    Sub(r"(?:threads::detail::)?thread_schedule_state::(\w+)", r"thread_schedule_state_\1", None),
    Sub(r"(?:threads::detail::)?thread_id_addref::(\w+)", r"thread_id_addref_\1", None),
    Call0(r"(?:threads::detail::)?get_thread_id_data\(([^()]*)\)->(\w+)", _tid_method),
    Sub(r"\b(thread_heap_\w+_)\.push_back\(", r"heap_push_back(&\1, ", None),          # std::vector::push_back
    Sub(r"\b(\w+)->(empty|back|pop_back)\(\)", r"heap_\2(\1)", None),                    # std::vector through the heap pointer
    Sub(r"\bthread_heap_type\s*\*", "struct heap*", None),
    Sub(r"(?:threads::detail::)?thread_data\s*\*", "struct thread_data*", None),
    Sub(r"(?:threads::detail::)?thread_data_(stackless|stackful)::create\(", r"create_\1(", None),
    Call(r"(?:threads::detail::)?thread_id_ref_type(?=\s*\()", "id_ref_make({args})", None),
    Sub(r"\bdata\.", "data->", None),                                                    # reference parameter
    Call(r"\bdata->scheduler_base->get_stack_size", "scheduler_get_stack_size(data->scheduler_base, {args})", None),
    Sub(r"\blk\.owns_lock\(\)", "lk->owns", None),
    Guard(r"(?:pika::)?(?:detail::)?unlock_guard\s*(?:<[^;()]*>)?\s*\w+\s*\(\s*(\w+)\s*\)\s*;", r"lock_unlock(\1);", r"lock_lock(\1);", None),
    Sub(r"\bthis\b", "self", None),
]

# MiniSat (CBMC's default back end) does not terminate on some FAILING variants of these two units (seen with mutants: it
# hangs inside the propositional reduction of a 55k-variable instance); CaDiCaL decides the same instances in < 1 s.
CADICAL = ["--sat-solver", "cadical"]

QHT = "libs/pika/schedulers/include/pika/schedulers/queue_holder_thread.hpp"
QHT_RULES = [
    Sub(r"\btid\b", "thrd", None),                                        # parameter spelling of queue_holder_thread
    DropStmt(r"::pika::detail::tq_deb\.debug", None),                     # debug print
    Sub(r"(?:pika::)?execution::thread_stacksize::(\w+)", r"thread_stacksize_\1", None),
    Sub(r"\b(thread_heap_\w+_)\.push_front\(", r"heap_push_front(&\1, ", None),
    Sub(r"\b(\w+)->(front|pop_front)\(\)", r"heap_\2(\1)", None),
]


def heap_lifts(src, extra):
    rules = extra + [Sub(r"(?:pika::)?execution::thread_stacksize::(\w+)", r"thread_stacksize_\1", None),
                     Sub(r"(?:threads::detail::)?get_self_stacksize_enum\(\)", "get_self_stacksize_enum()", None)] + TQ_RULES
    return {"recycle_thread": Lift(src, r"void recycle_thread\(threads::detail::thread_id_type (?:thrd|tid)\)", rules=rules + [
                Members(TQ_MEMBERS, optional=TQ_MEMBERS)]),
            "create_thread_object": Lift(src, r"void create_thread_object\(\s*threads::detail::thread_id_ref_type& (?:thrd|tid),", rules=rules + [
                Sub(r"(?<![\w.>&*])thrd\b", "(*thrd)", None), Members(TQ_MEMBERS, optional=TQ_MEMBERS)])}


for (pref, src, cls, defs, extra) in [("heap", TQ, "thread_queue", [], []), ("heap.qht", QHT, "queue_holder_thread", ["QHT"], QHT_RULES)]:
    UNITS += [
        Unit(pref + ".recycle_thread", "heap.c", defines=["U_RECYCLE"] + defs, enforce="recycle_thread", lifts=heap_lifts(src, extra),
             funcs=[src + ": %s::recycle_thread" % cls],
             doc="T: a terminated object of a configured stack size is pushed onto exactly one of the queue's free lists, once; all "
                 "configurations of the five sizes", min_obligations=10, solver=CADICAL),
        Unit(pref + ".create_after_recycle", "heap.c", defines=["U_CREATE"] + defs, enforce="create_thread_object", lifts=heap_lifts(src, extra),
             funcs=[src + ": %s::create_thread_object, %s::recycle_thread" % (cls, cls)],
             doc="F/T over two lifted bodies: for one symbolic victim object put on a free list by recycle_thread and one symbolic "
                 "requested size: same size => create_thread_object consults the very list the victim is on; the victim is handed "
                 "out only for its own stack size; exactly one object (rebound and popped, or new with the requested size) is handed "
                 "out; all configurations of the five sizes including equal ones", min_obligations=30, solver=CADICAL),
    ]

# ---------------------------------------------------------------------------------------------------------------
# unit group 3c: thread_data_stackful glue (constructor vs rebind)

TDS = "libs/pika/threading_base/include/pika/threading_base/thread_data_stackful.hpp"
TDS_RULES = [
    Sub(r"\binit_data\.", "init_data->", None),
    Sub(r"\bthread_id_type\(", "thread_id_make(", None),
    Sub(r"\bthis_\(\)", "this_(self)", None),
    Sub(r"\bthis->thread_data::rebind_base\(", "thread_data_rebind_base(self, ", None),
    Sub(r"\bcoroutine_\.rebind\(", "coroutine_rebind(&self->coroutine_, ", None),
    Sub(r"\bcoroutine_\.is_ready\(\)", "coroutine_is_ready(&self->coroutine_)", None),
    Sub(r"\bcoroutine_\.impl\(\)", "coroutine_impl_of(&self->coroutine_)", None),
    Sub(r"\bthis\b", "self", None),
]
UNITS += [
    Unit("recycle.stackful_rebind", "glue.c", enforce="tds_rebind", lifts={
        "this_": Lift(TDS, r"thread_data\* this_\(\)", rules=TDS_RULES),
        "ctor": Lift(TDS, r"thread_data_stackful\(thread_init_data& init_data, void\* queue, std::ptrdiff_t stacksize,\s*thread_id_addref addref\)",
                     fragment_end=r"\}(?=\s*~thread_data_stackful\(\);)", rules=TDS_RULES + [
            CtorInit(["coroutine_", "agent_"], bases={"thread_data": "thread_data_ctor(self, {args});"},
                     ctors={"coroutine_": "coroutine_ctor({args})", "agent_": "agent_ctor({args})"})]),
        "rebind": Lift(TDS, r"void rebind\(thread_init_data& init_data\) override", rules=TDS_RULES)},
        funcs=[TDS + ": threads::detail::thread_data_stackful::rebind, thread_data_stackful (constructor), this_"],
        doc="T: rebind resets the thread_data part and the coroutine part once each and gives the coroutine the "
            "object's own identity, exactly as the constructor does; the constructor passes the requested stack size to the coroutine",
        min_obligations=15),
]

META = {
    "trusted_base": [
        "specs/C12/stack.c vx_mmap: the kernel's mmap fails for len == 0 (EINVAL) and for len > 2^47 (x86-64 user address space) "
        "and otherwise returns a fresh region of exactly len bytes (modelled as a fresh object; disjointness of distinct mappings "
        "is the kernel's); vx_mprotect/vx_madvise/vx_munmap record (address, length) and may fail",
        "EXEC_PAGESIZE of the build platform (<sys/param.h>, 4096) -- the same header posix_utility.hpp reads",
        "specs/C12/stack.c make_stack(): harness input domain of the units that start from an existing stack = an object of exactly "
        "`size` bytes, size a positive page multiple <= 2^47 (two VX_ASSUMEs in the harness helper)",
        "specs/C12/stack.c lemma harnesses (no contract to carry a precondition): stack.guard_roundtrip VX_ASSUME(one page of room on "
        "the side the conversion moves to, object <= 2^47), stack.alloc_free VX_ASSUME(size <= PTRDIFF_MAX), ctx.init_dtor "
        "VX_ASSUME(stack_size >= -1) -- the ranges for which the overflow checks are claimed",
        "specs/C12/stack.c harness of ctx.rebind_stack: VX_ASSUME(!vx_exc) after the lifted init() (input domain: contexts whose "
        "init succeeded)",
        "specs/C12/heap.c: the five free lists (std::vector / std::list of thread ids) abstracted to 'what is on top' with one "
        "symbolic victim object; thread_data::rebind, thread_data_stackful/stackless::create, get_stack_size, "
        "scheduler_base::get_stack_size are recording stubs; VX_ASSUME: the victim has one of the configured sizes (objects are "
        "created by this queue with scheduler_base::get_stack_size(class), the same thread_queue_init_parameters)",
        "specs/C12/recycle.c: std::forward_list<function> abstracted to its length, spinlock_pool lock to a held bit, "
        "thread_state(state, state_ex) constructor to a struct with tag 0 (packing: C01); harness VX_ASSUME: init_data.stacksize != "
        "current (the constructor's own PIKA_ASSERT: the scheduler resolves `current` before)",
        "specs/C12/tramp.c functor_call: the user's thread function as a nondeterministic stub (may set task-local data, may throw, "
        "returns (terminated, next) -- `terminated` is what the thread_function wrapper guarantees); swap_context_yield: the assembly "
        "context switch back to the scheduler, modelled as 'obligations asserted; the only way back in is rebind (lifted) + "
        "bind_args/do_invoke (lifted)'; x86_linux_context_impl::reset_stack / rebind_stack as counting stubs (contracts: ctx.* units)",
        "specs/C12/glue.c: thread_data base constructor / rebind_base and coroutine constructor / rebind as recording stubs (their "
        "own units: recycle.rebind_base, recycle.trampoline)",
    ],
    "assumptions": [
        "posix::use_guard_pages does not change between alloc_stack and free_stack of one stack (it is written once in init_runtime)",
        "C++ exceptions are lowered to a flag + early return (stack units) / a jump to the handler (trampoline); destructors of "
        "locals on those paths are trivial in the lifted functions except reset_self_on_exit, which is lowered as a scope guard",
        "stack sizes for which 'no arithmetic overflow' is claimed: 1 .. PTRDIFF_MAX (every positive value a std::ptrdiff_t "
        "configuration entry can hold); for all other size_t values (negative configured sizes converted to size_t) the *.anysize "
        "units show with wrap-around semantics that no stack is handed out (check_stack_size or the kernel refuses)",
        "rebind_base precondition: the previous task ran its exit callbacks (exit_funcs_ empty or ran_exit_funcs_; C13) and "
        "stacksize_ != 0 (the two PIKA_ASSERTs of rebind_base / free_thread_exit_callbacks are obligations under it)",
        "mem-initialiser lists are lifted in the order written (= declaration order in the lifted constructors; no initialiser reads "
        "another member)",
        "heap units use CaDiCaL (cbmc --sat-solver cadical): MiniSat hangs on failing variants of these instances",
    ],
    "not_decided": [
        "register / FP state and stack CONTENTS across swapcontext_stack (inline assembly in context_linux_x86.hpp and the .S file): no C semantics",
        "that the 12-word frame laid out by init()/rebind_stack() is what the assembly pops (layout constants are taken as declared)",
        "disjointness of two different mmap results (kernel)", "identity of a task across migration between workers",
        "context_generic_context.hpp (Boost.Context) and context_posix.hpp (ucontext): not active in this build",
        "context_base::continuation_recursion_count_: set to 0 by the constructor, neither reset nor asserted by rebind/trampoline "
        "(reach marker continuation_recursion_count_inherited); no pika code writes it at this commit, it is reachable only through "
        "the reference returned by get_continuation_recursion_count()",
        "thread_data_stackless (tasks without a stack) and the reference count of a recycled thread_data",
        "the mapping leaked when mprotect fails after a successful mmap in alloc_stack (error path, not part of the property)",
    ],
}


# ---- identity across migration (added after seeded change C12-1 was missed) ---------------------------------------
import re as _re2
from vx.lift import read_source as _rs2, LiftError as _LE2
CSELF_HPP = "libs/pika/coroutines/include/pika/coroutines/detail/coroutine_self.hpp"
CSELF_CPP = "libs/pika/coroutines/src/detail/coroutine_self.cpp"
CSTACKFUL = "libs/pika/coroutines/include/pika/coroutines/detail/coroutine_stackful_self.hpp"
def _rsoe_members():
    # data members of the nested coroutine_self::reset_self_on_exit, read from /repo (types mapped to C spelling)
    try:
        src = _rs2(CSELF_HPP)
        m = _re2.search(r"struct reset_self_on_exit\s*\{(.*?)\n        \};", src, _re2.S)
        body = m.group(1)
        mem = _re2.findall(r"^\s*(coroutine_self\s*\*\s*&?)\s*(\w+)\s*;", body, _re2.M)
        out = []
        for t, n in mem:
            out.append(("struct coroutine_self **%s;" if "&" in t else "struct coroutine_self *%s;") % n)
        return " ".join(out)
    except Exception:
        return "struct coroutine_self *self_;"
_RS_MEM = _rsoe_members()
_REFS = [n for n in _re2.findall(r"\*\*(\w+);", _RS_MEM)]      # reference members are pointers to a slot in C
ID_SPELL = [
    Sub(r"\bcoroutine_self\s*\*\s*&", "struct coroutine_self **", None),
    Sub(r"(?<!struct )\bcoroutine_self\s*\*", "struct coroutine_self *", None),
    Sub(r"\bstatic thread_local struct coroutine_self \*\s*(\w+) = nullptr;\s*return \1;", "return &vx_tls[g_worker];", None),
    Sub(r"\blocal_self\(\) = ", "*local_self() = ", None),
    Sub(r"\breturn local_self\(\);", "return *local_self();", None),
    Sub(r"\bcoroutine_self::", "", None),
]
def _rsoe_rules():
    r = list(ID_SPELL)
    for n in _REFS:
        # a reference member: initialised with the slot's address, used through it
        r.append(Sub(r"\b%s\((\w+\(\))\)" % n, r"%s = \1" % n, None))
        r.append(Sub(r"(?<![\w>.])%s = (?!local_self)" % n, "*self_guard->%s = " % n, None))
        r.append(Sub(r"(?<![\w>.*])%s\b(?! = )" % n, "self_guard->%s" % n, None))
    return r
UNITS.append(Unit("ctx.yield_identity", "identity.c", defines=["RSOE_MEMBERS=" + _RS_MEM], enforce="yield_impl",
                  lifts={
                      "local_self": Lift(CSELF_CPP, r"coroutine_self\*& coroutine_self::local_self\(\)", rules=ID_SPELL),
                      "set_self": Lift(CSELF_HPP, r"static void set_self\(coroutine_self\* self\)", rules=ID_SPELL),
                      "get_self": Lift(CSELF_HPP, r"static coroutine_self\* get_self\(\)", rules=ID_SPELL),
                      "rsoe_ctor": Lift(CSELF_HPP, r"reset_self_on_exit\(coroutine_self\* self\)", fragment_end=r"\}\s*\n", rules=[
                          Sub(r"^reset_self_on_exit\(coroutine_self\* self\)\s*:\s*", "{ ", 1),
                          Sub(r"\bself_\(self\)", "self_guard->self_ = self;", None),
                          Sub(r",\s*(\w+)\((local_self\(\))\)", r" self_guard->\1 = \2;", None),
                          Sub(r";\s*\{", "; {", None), Sub(r"\}\s*$", "} }", 1)] + _rsoe_rules()),
                      "rsoe_dtor": Lift(CSELF_HPP, r"~reset_self_on_exit\(\)", which=0, expect=2, rules=_rsoe_rules() + [
                          Sub(r"(?<![\w>.])self_\b", "self_guard->self_", None)]),
                      "yield_impl": Lift(CSTACKFUL, r"arg_type yield_impl\(result_type arg\) override", rules=[
                          Sub(r"\bthis->pimpl_->(\w+)\(", r"pimpl_\1(&self->pimpl_, ", None),
                          Sub(r"\*pimpl_->args\(\)", "*pimpl_args(&self->pimpl_)", None),
                          Sub(r", \)", ")", None),
                          Sub(r"PIKA_ASSERT\(pimpl_\)", "PIKA_ASSERT(self->pimpl_)", None),
                          Guard(r"reset_self_on_exit (\w+)\(this\);", r"struct rsoe \1; rsoe_ctor(&\1, self);", r"rsoe_dtor(&\1);", 1)]),
                  },
                  funcs=[CSTACKFUL + ": coroutine_stackful_self::yield_impl", CSELF_HPP + ": coroutine_self::reset_self_on_exit (ctor, dtor), set_self, get_self",
                         CSELF_CPP + ": coroutine_self::local_self"], min_obligations=10,
                  doc="identity (worker-local current-task pointer) is restored on the worker the task resumes on, also after migration"))


# ---- C01 unit reused (added after seeded change C12-4 was missed): "each task runs on a stack of the size configured for its
# ---- stack-size class" needs `thread_stacksize::current` (= the spawner's class) to be resolved in the spawning task's context,
# ---- i.e. by thread_queue::create_thread before the description is staged; that is a postcondition of the C01 unit
_c01 = {"UNITS": [], "VX_NO_REUSE": True, "__name__": "c01_reuse"}
if not globals().get("VX_NO_REUSE"):     # reuse is never transitive: the other spec is loaded without ITS reuse blocks (no cycles)
    exec(compile(open("/verif/specs/C01/spec.py").read(), "/verif/specs/C01/spec.py", "exec"), _c01)
for _u in _c01["UNITS"]:
    if _u.name in ("hops.tq.create_thread", "hops.heap.create_thread_object"):
        _u.name = "c01." + _u.name
        _u.template = "../C01/" + _u.template
        UNITS.append(_u)
META["trusted_base"] = list(META.get("trusted_base", [])) + ["units c01.* are the C01 units of the same name (specs/C01/hops_create.c, hops_heap_create.c) with their trusted base"]


# ---- thread_queue::on_start_thread (added by main after seeded change C12-5 was missed): pre-allocated objects establish the free-list invariant ----
LOOP_PREALLOC = ("__CPROVER_assigns(i, g_new, g_new_live, g_pushes)\n"
                 "__CPROVER_loop_invariant(0 <= i && (i <= self->parameters_.init_threads_count_ || i == 0) && g_pushes == i && !g_new_live && self->mtx_.locked)")
UNITS.append(Unit("heap.on_start_thread", "prealloc.c", enforce="on_start_thread", lifts={"body": Lift(TQ,
    r"void on_start_thread\(std::size_t[^)]*\)", rules=[
        Sub(r"\bstatic_assert\s*\((?:[^;\"]|\"(?:[^\"\\]|\\.)*\")*\);", "", None),
        Sub(r"\b(thread_heap_\w+_)\.reserve\(", r"heap_reserve(&\1, ", None),
        Sub(r"\b(thread_heap_\w+_)\.(?:emplace_back|push_back)\(", r"heap_push_back(&\1, ", None),
        Guard(r"std::(?:lock_guard|unique_lock|scoped_lock)\s*(?:<[^;()]*>)?\s*\w+\s*\(\s*(\w+)\s*\)\s*;", r"mutex_lock(&\1);", r"mutex_unlock(&\1);", 1),
        Sub(r"(?:threads::detail::)?thread_init_data (\w+);", r"struct thread_init_data \1;", None),
        Sub(r"(?:threads::detail::)?thread_id_addref::(\w+)", r"thread_id_addref_\1", None),
        Sub(r"(?:threads::detail::)?thread_data\s*\*", "struct thread_data*", None),
        Sub(r"(?:threads::detail::)?thread_data_stackful::create\(\s*(\w+),", r"create_stackful(&\1,", None),
        Sub(r"\b(\w+)->init\(\)", r"thread_init(\1)", None),
        Sub(r"\bthis\b", "self", None),
        Members(["parameters_", "thread_heap_small_", "thread_heap_medium_", "thread_heap_large_", "thread_heap_huge_", "thread_heap_nostack_", "mtx_"],
                optional=["thread_heap_small_", "thread_heap_medium_", "thread_heap_large_", "thread_heap_huge_", "thread_heap_nostack_"]),
    ], loops={1: LOOP_PREALLOC, "count": 1})}, funcs=[TQ + ": thread_queue::on_start_thread"], min_obligations=8,
    doc="I: every pre-allocated task object is created with the stack size CONFIGURED for the free list it is put on (symbolic "
        "init_threads_count, all configurations of the sizes), under the queue lock, none leaked"))


# ---- C16 unit reused (added after seeded change C12-7 was missed): "the size configured for its stack-size class" is the cached
# ---- small/medium/large/huge_stacksize of runtime_configuration, which reconfigure() must recompute from the merged ini data
# ---- (thread_manager copies them into thread_queue_init_parameters; create_thread_object sizes every stack from those)
_c16 = {"UNITS": [], "VX_NO_REUSE": True, "__name__": "c16_reuse"}
if not globals().get("VX_NO_REUSE"):     # reuse is never transitive: the other spec is loaded without ITS reuse blocks (no cycles)
    exec(compile(open("/verif/specs/C16/spec.py").read(), "/verif/specs/C16/spec.py", "exec"), _c16)
for _u in _c16["UNITS"]:
    if _u.name == "rtcfg.reconfigure":
        _u.name = "c16." + _u.name
        _u.template = "../C16/" + _u.template
        UNITS.append(_u)
META["trusted_base"] = list(META.get("trusted_base", [])) + ["unit c16.rtcfg.reconfigure is the C16 unit of the same name (specs/C16/reconf.c) with its trusted base"]


# ---- the chain that carries the configured stack sizes to the place where a stack is sized (written by main, round 10) ----
RC_CPP = "libs/pika/runtime_configuration/src/runtime_configuration.cpp"
TM_CPP = "libs/pika/thread_manager/src/thread_manager.cpp"
TQIP_HPP = "libs/pika/threading_base/include/pika/threading_base/thread_queue_init_parameters.hpp"
SB_HPP2 = "libs/pika/threading_base/include/pika/threading_base/scheduler_base.hpp"
_SZ_ENUM = Sub(r"(?:pika::)?execution::thread_stacksize::(\w+)", r"thread_stacksize_\1", None)
_SZ_MAX = Sub(r"\(std::numeric_limits<std::ptrdiff_t>::max\)\(\)", "VX_PTRDIFF_MAX", None)
_SZ_DEFAULT_FIRST = Sub(r"\bdefault:\s*(case\s+\w+:)", r"\1 default:", None)     # `default: case X:` -> C accepts both orders; keep one spelling


class _TqipCtor(Lift):
    """constructor of thread_queue_init_parameters: the mem-initialiser list `a_(x), ...` becomes `self->a_ = (x);` statements"""

    def run(self):
        from vx.lift import locate as _loc, match_close as _mc, split_args as _sa, resolve_pp as _rp, apply_rules as _ar, GENERIC_RULES as _GR
        body, line, header = _loc(self.src, self.locate, self.which, self.expect, ctor=True)
        op = header.index("(")
        rest = header[_mc(header, op) + 1:].strip()
        if not rest.startswith(":"):
            raise LiftError("no mem-initialiser list")
        st = []
        for item in _sa(rest[1:]):
            m = re.match(r"\s*(\w+)\s*[({](.*)[)}]\s*$", item, re.S)
            if not m:
                raise LiftError("cannot parse initialiser %r" % item)
            st.append("self->%s = (%s);" % (m.group(1), m.group(2).strip()))
        text = "{ " + " ".join(st) + " " + body.strip()[1:]
        text = _ar(_ar(_rp(text), self.rules), _GR)
        return {"text": text, "line": line, "file": self.src, "raw": header + body, "nloops": 0, "header": header}


UNITS += [
    Unit("sizes.rtcfg.get_stack_size", "sizes.c", defines=["U_RTCFG_GET"], enforce="rtcfg_get_stack_size",
         lifts={"body": Lift(RC_CPP, r"std::ptrdiff_t runtime_configuration::get_stack_size\(\s*execution::thread_stacksize stacksize\) const",
                             rules=[_SZ_ENUM, _SZ_MAX, Members(["small_stacksize", "medium_stacksize", "large_stacksize", "huge_stacksize"],
                                            optional=["small_stacksize", "medium_stacksize", "large_stacksize", "huge_stacksize"])])},
         funcs=[RC_CPP + ": runtime_configuration::get_stack_size"], min_obligations=3,
         doc="F: the cached size of exactly the requested class"),
    Unit("sizes.tm.ctor_fragment", "sizes.c", defines=["U_TM_FRAGMENT"], enforce="tm_ctor_fragment",
         lifts={"body": Lift(TM_CPP, r"std::ptrdiff_t small_stacksize = rtcfg_\.get_stack_size", fragment_end=r"huge_stacksize\);", rules=[
             _SZ_ENUM,
             Call(r"\brtcfg_\.get_stack_size", "rtcfg_get_stack_size(self->rtcfg_, {0})", None),
             # the constructor call: arguments 10..13 are the four sizes (positions pinned by sizes.tqip.ctor's signature)
             Call(r"\bthread_queue_init_parameters thread_queue_init", "tqip_make({10}, {11}, {12}, {13})", 1)])},
         funcs=[TM_CPP + ": thread_manager::thread_manager (fragment: the four stack sizes read from the configuration and handed to thread_queue_init_parameters)"],
         min_obligations=5,
         doc="F: the scheduler parameters carry, per class, the configured size of that class"),
    Unit("sizes.tqip.ctor", "sizes.c", defines=["U_TQIP_CTOR"], enforce="tqip_ctor",
         lifts={"body": _TqipCtor(TQIP_HPP, r"thread_queue_init_parameters\(\s*std::int64_t max_thread_count\b", rules=[_SZ_MAX])},
         funcs=[TQIP_HPP + ": thread_queue_init_parameters::thread_queue_init_parameters"], min_obligations=5,
         doc="F: every parameter initialises the member of the same name (14 same-typed neighbours)"),
    Unit("sizes.sb.get_stack_size", "sizes.c", defines=["U_SB_GET"], enforce="sb_get_stack_size",
         lifts={"body": Lift(SB_HPP2, r"std::ptrdiff_t get_stack_size\(execution::thread_stacksize stacksize\) const", rules=[
             _SZ_ENUM, _SZ_MAX,
             Sub(r"\bthreads::detail::get_self_stacksize_enum\(\)", "get_self_stacksize_enum()", None),
             Call(r"\bPIKA_ASSERT_MSG", "VX_PIKA_ASSERT({0})", None),
             Members(["thread_queue_init_"])])},
         funcs=[SB_HPP2 + ": scheduler_base::get_stack_size"], min_obligations=5,
         doc="F: the member of exactly the requested class; `current` = the class of the calling task"),
]
META["trusted_base"] = list(META.get("trusted_base", [])) + [
    "specs/C12/sizes.c: rtcfg_get_stack_size (in sizes.tm.ctor_fragment: the contract proved by sizes.rtcfg.get_stack_size, as an array read), "
    "tqip_make (the constructor's parameter order as proved by sizes.tqip.ctor), get_self_stacksize_enum (returns the calling task's class)"]


# ---- thread_init_data travels by value through the staged-task queues (added by main after seeded change C12-8 was missed) ----------------
TID_HPP = "libs/pika/threading_base/include/pika/threading_base/thread_init_data.hpp"
_TID_MEMBERS = ["func", "priority", "schedulehint", "stacksize", "initial_state", "run_now", "scheduler_base"]
_TID_RULES = [
    Sub(r"std::move\(rhs\.func\)", "fn_move(&rhs->func)", None),
    Sub(r"\brhs\.", "rhs->", None),
    Sub(r"return \*this;", "return self;", None),
    Members(_TID_MEMBERS, optional=_TID_MEMBERS),
    Sub(r"\brhs->self->", "rhs->", None),
]


class _TidCtor(Lift):
    """move constructor of thread_init_data: the mem-initialiser list (preprocessor conditionals resolved with the build's
    configuration first) becomes `self->m = (init);` statements in front of the body"""

    def run(self):
        from vx.lift import locate as _loc, match_close as _mc, split_args as _sa, resolve_pp as _rp, apply_rules as _ar, GENERIC_RULES as _GR
        body, line, header = _loc(self.src, self.locate, self.which, self.expect, ctor=True)
        header = _rp(header)
        op = header.index("(")
        rest = header[_mc(header, op) + 1:].strip()
        rest = re.sub(r"^noexcept\s*", "", rest)
        if not rest.startswith(":"):
            raise LiftError("no mem-initialiser list")
        st = []
        for item in _sa(rest[1:]):
            m = re.match(r"\s*(\w+)\s*[({](.*)[)}]\s*$", item, re.S)
            if not m:
                raise LiftError("cannot parse initialiser %r" % item)
            st.append("%s = %s;" % (m.group(1), m.group(2).strip()))
        text = "{ " + " ".join(st) + " " + _rp(body).strip()[1:]
        text = _ar(_ar(text, self.rules), _GR)
        return {"text": text, "line": line, "file": self.src, "raw": header + body, "nloops": 0, "header": header}


UNITS += [
    Unit("initdata.move_assign", "initdata.c", defines=["U_MOVE_ASSIGN"], enforce="tid_move_assign",
         lifts={"body": Lift(TID_HPP, r"thread_init_data& operator=\(thread_init_data&& rhs\) noexcept", rules=_TID_RULES)},
         funcs=[TID_HPP + ": thread_init_data::operator=(thread_init_data&&)"], min_obligations=5,
         doc="F: every member (the stack-size class in particular) arrives unchanged; the path of staged tasks of thread_queue_mc"),
    Unit("initdata.move_ctor", "initdata.c", defines=["U_MOVE_CTOR"], enforce="tid_move_ctor",
         lifts={"body": _TidCtor(TID_HPP, r"thread_init_data\(thread_init_data&& rhs\) noexcept", rules=_TID_RULES)},
         funcs=[TID_HPP + ": thread_init_data::thread_init_data(thread_init_data&&)"], min_obligations=5,
         doc="F: every member arrives unchanged; the path of staged tasks of thread_queue"),
]
META["not_decided"] = list(META.get("not_decided", [])) + [
    "thread_init_data: members that exist only with PIKA_HAVE_THREAD_DESCRIPTION / _PARENT_REFERENCE / APEX (off in the shipped configuration); "
    "that the member list of the C model is complete is by inspection (7 data members)"]
