/* C04 -- async_rw_mutex: common C types for the lifted member functions.
 *
 *   struct op   detail::async_rw_mutex_operation_state_base (+ the fields of sender::operation_state<R>)
 *   struct ss   detail::async_rw_mutex_shared_state_base (+ `value` of async_rw_mutex_shared_state<T>)
 *   sp_t        std::shared_ptr<async_rw_mutex_shared_state<..>>: a plain pointer; the control block is the ghost
 *               field g_refs of the pointee (trusted model, see sp_* in the templates that use it)
 * Payloads (the wrapped value, receivers, exception_ptr) are opaque tokens.
 */
#ifndef C04_H
#define C04_H
#include "vx.h"

struct ss;
struct op
{
  void *next;          /* async_rw_mutex_operation_state_base::next */
  int r;               /* operation_state<R>::r  (receiver: opaque token) */
  struct ss *state;    /* operation_state<R>::state (shared_ptr) */
};
struct ss
{
  struct ss *next_state;   /* shared_ptr<async_rw_mutex_shared_state_base> */
  void *op_state_head;     /* std::atomic<void*> */
  void *value;             /* async_rw_mutex_shared_state<T>::value (shared_ptr<T>), non-void specialisation only */
  /* ghost */
  long g_refs;             /* use_count of the control block owning this group */
  long g_done_calls;       /* number of done() calls this group has received */
};
typedef struct op async_rw_mutex_operation_state_base;
typedef struct ss async_rw_mutex_shared_state_base;

#define SENTINEL(s) ((void *) (s))
#define VX_BIG 1000000000L

#endif
