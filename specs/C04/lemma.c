/* lemma harness (no lifted text): the rely used for op_state_head in add_op_state.c / done.c is consistent with the
 * guarantees those units assert -- each thread's successful step is admissible interference for every other thread,
 * the sentinel is stable under the rely, and the rely is transitive (so one interfere() call per access models any
 * number of environment steps).  Two different operation states A, B and the group object S are symbolic. */
#include "c04.h"

#define RELY_OF(op, S, o, n) (((o) != (S) || (n) == (S)) && (n) != (op))   /* rely of the thread that owns `op` */
#define GUAR_ADD(op, S, o, n) ((o) != (S) && (n) == (op))                   /* successful CAS of add_op_state(op) */
#define GUAR_DONE(S, o, n) ((o) != (S) && (n) == (S))                       /* the exchange of done(): at most once per group */

void harness(void)
{
  struct ss s;
  struct op a, b;
  void *S = SENTINEL(&s), *A = &a, *B = &b;
  void *o = (void *) nondet_ulong(), *n = (void *) nondet_ulong(), *k = (void *) nondet_ulong();
  if (GUAR_ADD(A, S, o, n))
  {
    VX_REACH("add_step");
    VX_ASSERT(RELY_OF(B, S, o, n), "guarantee of add_op_state(A) is contained in the rely of the owner of B");
  }
  if (GUAR_DONE(S, o, n))
  {
    VX_REACH("done_step");
    VX_ASSERT(RELY_OF(B, S, o, n), "guarantee of done() is contained in the rely of the owner of B");
  }
  if (RELY_OF(B, S, o, n) && o == S)
  {
    VX_REACH("sentinel_seen");
    VX_ASSERT(n == S, "the sentinel is stable under the rely");
  }
  if (RELY_OF(B, S, o, n) && RELY_OF(B, S, n, k))
  {
    VX_REACH("two_env_steps");
    VX_ASSERT(RELY_OF(B, S, o, k), "the rely is transitive");
  }
}
