from vx.lift import Lift, Sub, Call, Members, Guard, DropStmt, TryCatch
from vx.lift import Rule, LiftError, read_source, locate
from vx.run import Unit
import re

HPP = "libs/pika/execution/include/pika/execution/async_rw_mutex.hpp"
SSB = HPP + ": detail::async_rw_mutex_shared_state_base::"

THIS = Sub(r"\bthis\b", "self", None)


class NoCxxLeft(Rule):
    """after the unit rules no C++-only spelling may be left that a C compiler would silently accept with another
    meaning (`auto x = ...` is an int declaration in C) -> extraction failure instead of a wrong model"""
    n = None

    def apply(self, text):
        m = re.search(r"\bauto\b|\bstd::(?!move\b|memory_order|u?int\d+_t|size_t|ptrdiff_t)\w+", text)
        if m:
            raise LiftError("untranslated C++ construct '%s' left in the lifted text" % m.group(0))
        return text


# ------------------------------------------------------------------------------------------------
# 1. add_op_state  (S contract on op_state_head)

LOOP_ADD = """
__CPROVER_assigns(self->op_state_head, op_state->next, lin, lin_old, lin_new, g_last_read, g_interfered)
__CPROVER_loop_invariant(!lin && (op_state->next != SENTINEL(self) || g_last_read == SENTINEL(self)) && g_interfered >= 0 && g_interfered <= 2)
"""

UNITS = [
    Unit("ss.add_op_state", "add_op_state.c", enforce="add_op_state",
         lifts={"body": Lift(HPP, r"bool add_op_state\(", rules=[
             Call(r"\bop_state_head\.load", "atomic_load_ptr(&self->op_state_head)", None),
             Call(r"\bop_state_head\.compare_exchange_(weak|strong)", "atomic_cas_{h1}_ptr(&self->op_state_head, &{0}, {1})", None),
             Call(r"\bop_state_head\.store", "atomic_store_ptr(&self->op_state_head, {0})", None),
             Call(r"\bop_state_head\.exchange", "atomic_exchange_ptr(&self->op_state_head, {0})", None),
             THIS], loops={1: LOOP_ADD, "count": 1})},
         funcs=[SSB + "add_op_state"], min_obligations=40),
]

UNITS += [
    Unit("ss.head.rely_guarantee", "lemma.c", kind="lemma", min_obligations=4,
         doc="guarantee(add_op_state), guarantee(done) are contained in the rely; sentinel stable; rely transitive"),
]

# ------------------------------------------------------------------------------------------------
# 2. done()  (exchange installs the sentinel; traversal = T contract with a ghost position and one symbolic victim)

LOOP_DONE = """
__CPROVER_assigns(current, g_pos, g_victim_calls, g_self_dead, self->op_state_head, self->next_state, __CPROVER_object_whole(g_cell))
__CPROVER_loop_invariant(0 <= g_pos && g_pos <= g_n && g_n <= CHAIN_MAX)
__CPROVER_loop_invariant(current == NODE(g_pos))
__CPROVER_loop_invariant(g_pos >= g_n || CELL(g_pos).next == NODE(g_pos + 1))
__CPROVER_loop_invariant(g_pos + 1 >= g_n || CELL(g_pos + 1).next == NODE(g_pos + 2))
__CPROVER_loop_invariant(g_victim_calls == ((0 <= g_k && g_k < g_pos) ? 1 : 0))
__CPROVER_loop_invariant(!g_self_dead || g_pos == g_n)
__CPROVER_loop_invariant(g_self_dead || self->op_state_head == SENTINEL(self))
__CPROVER_decreases(g_n - g_pos)
"""
DONE_RULES = [
    Sub(r"\bauto\s*\*\s*(\w+)\s*=", r"async_rw_mutex_operation_state_base *\1 =", None),
    Members(["op_state_head"], obj="vx_live(self)"),
    Call(r"vx_live\(self\)->op_state_head\.exchange", "atomic_exchange_ptr(&vx_live(self)->op_state_head, {0})", None),
    Call(r"vx_live\(self\)->op_state_head\.load", "atomic_load_ptr(&vx_live(self)->op_state_head)", None),
    Call(r"vx_live\(self\)->op_state_head\.store", "atomic_store_ptr(&vx_live(self)->op_state_head, {0})", None),
    Call(r"\b(\w+)->continuation", "op_continuation({h1})", None),
    THIS,
]
UNITS += [
    Unit("ss.done", "done.c", enforce="done",
         lifts={"body": Lift(HPP, r"void done\(\)", rules=DONE_RULES, loops={1: LOOP_DONE, "count": 1})},
         funcs=[SSB + "done"], min_obligations=40),
    # bounded ADDITION (cross-check of the storage abstraction of done.c on <= 3 distinct nodes; not counted as proof)
    Unit("ss.done.b3", "done_b3.c", enforce="done", kind="bounded", unwind=5, loop_contracts=False,
         lifts={"body": Lift(HPP, r"void done\(\)", rules=DONE_RULES, loops={"count": 1})},
         funcs=[SSB + "done"], doc="chain length <= 3, distinct harness-built nodes, plain unwinding"),
]

# ------------------------------------------------------------------------------------------------
# 3. destructor of a group, set_next_state


class Census(Rule):
    """Supporting static fact (DESIGN 3.4, A-CLOSED): outside the bodies of the listed (lifted, verified) functions
    the comment-free source file contains no textual site of `pat`.  An unlisted call site makes the unit
    undecided (exit 2), never a pass; sites inside the listed bodies are decided by those bodies' contracts."""

    def __init__(self, src, pat, listed, what):
        self.src, self.pat, self.listed, self.what, self.n = src, pat, listed, what, None

    def apply(self, text):
        rest = read_source(self.src)
        for (loc, which, expect) in self.listed:
            body = locate(self.src, loc, which, expect)[0]
            if body not in rest:
                raise LiftError("census: body of /%s/ not found" % loc)
            rest = rest.replace(body, "", 1)
        k = len(re.findall(self.pat, rest))
        if k:
            raise LiftError("census: %s: %d textual site(s) of /%s/ outside the verified functions" % (self.what, k, self.pat))
        return text


LOC_DTOR = r"virtual ~async_rw_mutex_shared_state_base\(\)"
LOC_READ = r"sender<async_rw_mutex_access_type::read> read\(\)"
LOC_READWRITE = r"sender<async_rw_mutex_access_type::readwrite> readwrite\(\)"
MUTEX_BODIES = [(LOC_READ, 0, 2), (LOC_READ, 1, 2), (LOC_READWRITE, 0, 2), (LOC_READWRITE, 1, 2)]
SP_METHODS = Sub(r"([\w>-]+)\.(get|use_count|reset)\(\)", r"sp_\2(&\1)", None)
DONE_CALL = Call(r"\b([\w>-]+)->done", "ss_done({h1})", None)
DTOR_LIFT = Lift(HPP, LOC_DTOR, rules=[
    Census(HPP, r"(?:->|\.)done\(", [(LOC_DTOR, 0, 1)] + MUTEX_BODIES, "done() is called only by the destructor and by read()/readwrite()"),
    Census(HPP, r"(?:->|\.)set_next_state\(", MUTEX_BODIES, "set_next_state() is called only by read()/readwrite()"),
    Members(["next_state"]), SP_METHODS, DONE_CALL])
UNITS += [
    # no assumption about who else refers to the successor: FAILS on the pinned tree (finding: an operation state that
    # is connected and destroyed without being started leaves use_count() == 1; the reset destroys the successor and
    # p->done() runs on freed memory).  known_findings can exclude the class with -DKF_NO_OPSTATE_DROPPED_UNSTARTED.
    Unit("ss.dtor", "dtor.c", defines=["U_DTOR"], enforce="ss_dtor", lifts={"body": DTOR_LIFT},
         funcs=[SSB + "~async_rw_mutex_shared_state_base"], min_obligations=20),
    # the same contract under the authors' own assumption PIKA_ASSERT(next_state.use_count() > 1)
    Unit("ss.dtor.refs_gt1", "dtor.c", defines=["U_DTOR", "KF_NO_OPSTATE_DROPPED_UNSTARTED"], enforce="ss_dtor",
         lifts={"body": DTOR_LIFT}, funcs=[SSB + "~async_rw_mutex_shared_state_base"], min_obligations=20,
         doc="assumes use_count() > 1 (no operation state of the successor was dropped unstarted)"),
    Unit("ss.set_next_state", "dtor.c", defines=["U_SET_NEXT_STATE"], enforce="set_next_state",
         lifts={"body": Lift(HPP, r"void set_next_state\(shared_state_ptr_type state\)", rules=[
             Sub(r"\b(\w+) = std::move\((\w+)\);", r"sp_move_assign(&\1, &\2);", None),
             Sub(r"\b(\w+) = (\w+);", r"sp_copy_assign(&\1, &\2);", None),
             Guard(r"^\{", "{", "sp_release(&state);", 1),
             Members(["next_state"], optional=["next_state"]), SP_METHODS])},
         funcs=[SSB + "set_next_state"], min_obligations=10),
    Unit("ss.set_value", "dtor.c", defines=["U_SET_VALUE"], enforce="set_value",
         lifts={"body": Lift(HPP, r"void set_value\(value_ptr_type v\)", rules=[
             Sub(r"\b(\w+) = std::move\((\w+)\);", r"val_move_assign(&\1, &\2);", None),
             Sub(r"\b(\w+) = (\w+);", r"val_copy_assign(&\1, &\2);", None),
             Sub(r"([\w>-]+)\.reset\(\)", r"val_release(&\1)", None),
             Guard(r"^\{", "{", "val_release(&v);", 1),
             Members(["value"], optional=["value"]), NoCxxLeft()])},
         funcs=[HPP + ": detail::async_rw_mutex_shared_state<T>::set_value"], min_obligations=10),
]

# ------------------------------------------------------------------------------------------------
# 4. read() / readwrite() of both specialisations (which=0: async_rw_mutex<void>, which=1: async_rw_mutex<T>)

MUTEX_RULES = [
    # sender<AccessType>{state}: the sender gets a COPY of the mutex's reference
    Sub(r"return sender<([^<>]*)>\{std::move\((\w+)\)\};", r"return sender_make(\1, sp_move(&\2));", None),
    Sub(r"return sender<([^<>]*)>\{(\w+)\};", r"return sender_make(\1, sp_copy(\2));", None),
    # auto prev_state = std::move(state);  -- a local shared_ptr: RAII-lowered, released at the end of its scope
    Guard(r"auto (\w+) = std::move\((\w+)\);", r"sp_t \1 = sp_move(&\2);", r"sp_release(&\1);", None),
    Guard(r"auto (\w+) = (\w+);", r"sp_t \1 = sp_copy(\2);", r"sp_release(&\1);", None),
    Sub(r"\bstate = ([^;]+);", r"sp_assign(&state, \1);", None),
    Call(r"std::allocate_shared<[^()]*>", "sp_allocate_shared({args})", None),
    # a raw pointer taken from the owning shared_ptr (`value.get()`): no reference is added for the group that stores it
    Sub(r"\b(\w+)->set_value\(\s*(\w+)\.get\(\)\s*\)", r"ss_set_value(\1, val_raw(\2))", None),
    Call(r"\b(\w+)->set_value(?!\(\w+, val_raw)", "ss_set_value({h1}, val_copy({0}))", None),
    Call(r"\b(\w+)->set_next_state", "ss_set_next_state({h1}, sp_copy({0}))", None),
    Call(r"\b(\w+)->done", "ss_done({h1})", None),
    Sub(r"async_rw_mutex_access_type::(\w+)", r"access_\1", "+"),
    Members(["state", "prev_access", "alloc", "value"], optional=["alloc", "value", "prev_access"]),
    NoCxxLeft(),
]
MTX = HPP + ": async_rw_mutex<%s>::%s"
for (which, tname, defs) in [(0, "void", []), (1, "T", ["NONVOID"])]:
    UNITS += [
        Unit("mutex.read." + tname, "mutex.c", defines=defs + ["U_READ"], enforce="mutex_read",
             lifts={"body": Lift(HPP, LOC_READ, which=which, expect=2, rules=MUTEX_RULES)},
             funcs=[MTX % (tname, "read")], min_obligations=60),
        Unit("mutex.readwrite." + tname, "mutex.c", defines=defs + ["U_READWRITE"], enforce="mutex_readwrite",
             lifts={"body": Lift(HPP, LOC_READWRITE, which=which, expect=2, rules=MUTEX_RULES)},
             funcs=[MTX % (tname, "readwrite")], min_obligations=60),
    ]

# ------------------------------------------------------------------------------------------------
# 5. sender / operation state (which=0: async_rw_mutex<void>::sender, which=1: async_rw_mutex<T>::sender)

CONT_RULES = [
    Sub(r"access_type\{std::move\((\w+)\)\}", r"wrapper_make(sp_move(&\1))", None),
    Sub(r"access_type\{(\w+)\}", r"wrapper_make(sp_copy(\1))", None),
    Call(r"pika::execution::experimental::set_value", "rcv_set_value(&{0}, {1}); VX_THROW_POINT", None),
    Call(r"pika::execution::experimental::set_error", "rcv_set_error(&{0}, {1})", None),
    Sub(r"std::current_exception\(\)", "vx_current_exception()", None),
    SP_METHODS,
    TryCatch(None),
    Sub(r"VX_THROW_POINT", "VX_THROW_ESCAPES()", None),  # a may-throw call outside any try block
    Members(["state", "r"], optional=["state", "r"], obj="vx_live_op(self)"),
    NoCxxLeft(),
]
START_RULES = [
    Call(r"\b(\w+)->add_op_state", "ss_add_op_state({h1}, {0})", None),
    Call(r"(?<![\w>.:])continuation", "op_continuation(self)", None),
    THIS,
    SP_METHODS,
    Members(["state"], optional=["state"], obj="vx_live_op(self)"),
    NoCxxLeft(),
]
SENDER_DTOR_RULES = [
    Call(r"pika::execution::experimental::start_detached", "start_detached_sender(&{0})", None),
    THIS,
    SP_METHODS,
    Members(["state"], optional=["state"]),
    NoCxxLeft(),
]
CONNECT_RULES = [
    Sub(r"if constexpr \([^()]*\)\s*\{\s*static_assert\([^;]*\);\s*\}", "", None),
    Sub(r"return operation_state<R>\{std::forward<R>\((\w+)\), std::move\((\w+)\)\};", r"return op_make(\1, sp_move(&\2));", None),
    Sub(r"return operation_state<R>\{std::forward<R>\((\w+)\), (\w+)\};", r"return op_make(\1, sp_copy(\2));", None),
    Members(["state"], optional=["state"]),
    NoCxxLeft(),
]
SND = HPP + ": async_rw_mutex<%s>::sender<A>::%s"
for (which, tname) in [(0, "void"), (1, "T")]:
    UNITS += [
        Unit("op.continuation." + tname, "sender.c", defines=["U_CONTINUATION"], enforce="continuation",
             lifts={"body": Lift(HPP, r"void continuation\(\) noexcept override", which=which, expect=2, rules=CONT_RULES)},
             funcs=[SND % (tname, "operation_state<R>::continuation")], min_obligations=40),
        Unit("op.start." + tname, "sender.c", defines=["U_START"], enforce="start",
             lifts={"body": Lift(HPP, r"void start\(\) & noexcept", which=which, expect=2, rules=START_RULES)},
             funcs=[SND % (tname, "operation_state<R>::start")], min_obligations=20),
        Unit("sender.dtor." + tname, "sender.c", defines=["U_SENDER_DTOR"], enforce="sender_dtor",
             lifts={"body": Lift(HPP, r"~sender\(\) noexcept", which=which, expect=2, rules=SENDER_DTOR_RULES)},
             funcs=[SND % (tname, "~sender")], min_obligations=10),
        Unit("sender.connect." + tname, "sender.c", defines=["U_CONNECT"], enforce="sender_connect",
             lifts={"body": Lift(HPP, r"auto connect\(R&& r\) &&", which=which, expect=2, rules=CONNECT_RULES)},
             funcs=[SND % (tname, "connect &&")], min_obligations=10),
    ]
UNITS += [
    Unit("sender.connect_copy.T", "sender.c", defines=["U_CONNECT", "U_CONNECT_COPY"], enforce="sender_connect",
         lifts={"body": Lift(HPP, r"auto connect\(R&& r\) const&", rules=CONNECT_RULES)},
         funcs=[SND % ("T", "connect const&")], min_obligations=10),
]

META = {
    "trusted_base": [
        "specs/C04/add_op_state.c atomic_load_ptr/atomic_cas_weak_ptr/interfere: std::atomic<void*> op_state_head as an indivisible word; "
        "before every access the environment may replace it by ANY bit pattern the rely allows (VX_ASSUME(RELY): the sentinel `this` is "
        "final, nobody else installs the caller's unpublished op_state); compare_exchange_weak may fail spuriously",
        "specs/C04/done.c atomic_exchange_ptr/interfere: before the exchange other threads only push (VX_ASSUME(m > g_n): the chain gets "
        "longer); op_continuation: T stub (asserts 'next live node of the captured chain', counts the symbolic victim, destroys the node, "
        "may destroy *this after the last node); it materialises the well-formed chain (node j's next is node j+1 -- what add_op_state's "
        "postcondition op->next == lin_old establishes push by push) lazily, two nodes ahead of the traversal, by writing (no assumption) "
        "and asserts that the link of the node being continued is intact",
        "specs/C04/done.c storage abstraction: node j of the (arbitrarily long) chain lives in g_cell[j & 3]; a traversal step holds two node "
        "pointers, any 4 consecutive nodes are distinct objects, storage is reused only after the node died; cross-checked by the bounded unit "
        "ss.done.b3 on <= 3 distinct harness-built nodes",
        "specs/C04/{dtor,mutex,sender}.c sp_*: std::shared_ptr/std::allocate_shared modelled as a plain pointer + ghost use count in the pointee "
        "(copy +1, reset/destruction -1, move 0, pointee destroyed at 0, allocate_shared returns a fresh value-initialised group with count 1); "
        "shared_ptr<T> value = opaque token + ghost use count",
        "specs/C04/dtor.c ss_done, specs/C04/mutex.c ss_set_next_state/ss_set_value/ss_done/sender_make and the destructor contract inlined "
        "in sp_release: callee stubs that assert the callee's preconditions (its PIKA_ASSERTs, order predicates) and bump ghost counters; the "
        "callee bodies are verified by ss.done, ss.set_next_state, ss.set_value, ss.dtor*",
        "specs/C04/sender.c rcv_set_value/rcv_set_error (receiver completion functions: opaque, counted, set_value may throw, after a "
        "completed signal the operation state may be destroyed), ss_add_op_state (nondeterministic result per the contract proved in "
        "ss.add_op_state; after `true` a concurrent done() may complete and destroy the operation state), start_detached_sender "
        "(start_detached connects the rvalue sender -- unit sender.connect -- and starts it), wrapper_make (access wrapper = holder of one "
        "group reference)",
        "spec.py Census: textual census of the header -- done() and set_next_state() have no call sites outside the verified bodies "
        "(destructor, 4 x read/readwrite); NoCxxLeft: no untranslated `auto`/std:: spelling reaches the C compiler",
    ],
    "assumptions": [
        "A-CLOSED (census, see trusted base): op_state_head is written only by add_op_state and done; done() is called only by the destructor "
        "of the predecessor group and by the first-access branch of read()/readwrite()",
        "ss.done requires 'the queue is not closed yet' (done() at most once per group): discharged per call site by ss.dtor* (requires the "
        "successor was not released, proved from mutex.* : a linked group is never released by the first-access branch) -- the composition "
        "of these unit contracts into the all-histories statement (DESIGN C04 'L4') is the paper history-induction, not machine checked",
        "ss.dtor.refs_gt1 ASSUMES the authors' PIKA_ASSERT(next_state.use_count() > 1): no operation state of the successor group was "
        "connected and then destroyed without being started (ss.dtor, without this assumption, fails: see report)",
        "ghost reference counters are bounded by 10^9 so that ghost arithmetic cannot overflow",
        "payloads (wrapped value, receivers, exception_ptr, allocator) are opaque tokens; template parameters R/AccessType do not influence "
        "the lifted bodies (the two specialisations' sender code is lifted separately and is textually identical)",
    ],
    "not_decided": [
        "std::shared_ptr / allocator behaviour (trusted model), receivers' own behaviour, start_detached's implementation",
        "liveness ('eventually granted') beyond: the release step of a group always calls done() of its successor exactly once, done() "
        "continues every queued operation state exactly once, start() either queues or continues inline",
        "adequacy of the memory orders (acquire/acq_rel) -- A-SC",
        "defaulted special members (mutex/sender/wrapper move and copy), access wrappers' get()/get_value() (PIKA_ASSERT(value) only)",
        "L4 composition lemma (request-order grants with read grouping over whole histories) as a machine-checked lemma harness",
    ],
}


# ---- async_rw_mutex move assignment (added by main after seeded change C04-9 was missed) -----------------------------------------------------
import re as _re4
from vx import lift as _L4


class _MutexMoveAssign(Lift):
    """`async_rw_mutex& operator=(async_rw_mutex&&) noexcept` of the which-th class definition: an explicit body is sliced (parameter
    renamed to rhs); `= default` becomes the member-wise move assignment over the class's non-static data members, read from the class text."""

    def __init__(self, src, which, rules):
        Lift.__init__(self, src, r"async_rw_mutex& operator=\(async_rw_mutex&&", rules=rules)
        self.which_cls = which

    def run(self):
        src = _L4.strip_comments(open(os.path.join(_L4.REPO, self.src)).read()) if hasattr(_L4, "strip_comments") else open(os.path.join(_L4.REPO, self.src)).read()
        ms = list(_re4.finditer(r"async_rw_mutex& operator=\(async_rw_mutex&&(?:\s+(\w+))?\)\s*noexcept", src))
        if len(ms) != 2:
            raise _L4.LiftError("async_rw_mutex move assignment: %d declarations found (expected 2)" % len(ms))
        m = ms[self.which_cls]
        line = src.count("\n", 0, m.start()) + 1
        tail = src[m.end():]
        d = _re4.match(r"\s*=\s*default\s*;", tail)
        if d:
            cls = [c for c in _re4.finditer(r"\bclass async_rw_mutex(?:<[^>{;]*>)?\s*\{", src) if c.start() < m.start()]
            if not cls:
                raise _L4.LiftError("enclosing class of the move assignment not found")
            op = cls[-1].end() - 1
            cl = _L4.match_close(src, op, "{", "}")
            body, depth, chunk, members = src[op + 1:cl], 0, "", []
            for ch in body:
                if ch == "{":
                    depth += 1
                elif ch == "}":
                    depth -= 1
                    if depth == 0:
                        chunk = ""
                        continue
                if depth == 0:
                    if ch == ";":
                        c = " ".join(chunk.split())
                        c = _re4.sub(r"^(?:public|private|protected)\s*:\s*", "", c)
                        c = _re4.sub(r"^#\s*\w+[^\n]*", "", c).strip()
                        mm = _re4.match(r"(?:PIKA_NO_UNIQUE_ADDRESS\s+)?[\w:<>]+\s+(\w+)(?:\s*=\s*.+)?$", c)
                        if mm and "(" not in c.split("=")[0] and not _re4.match(r"(using|template|friend|static|typedef|class|struct|enum)\b", c):
                            members.append(mm.group(1))
                        chunk = ""
                    else:
                        chunk += ch
            if "state" not in members or "prev_access" not in members:
                raise _L4.LiftError("member census of async_rw_mutex: %r" % members)
            text = "{ " + " ".join("%s = std::move(rhs.%s);" % (n, n) for n in members) + " return *this; }"
            raw = src[m.start():m.end() + d.end()]
        else:
            i = m.end() + _re4.match(r"\s*", tail).end()
            if src[i] != "{":
                raise _L4.LiftError("no body after the move assignment")
            e = _L4.match_close(src, i, "{", "}")
            text, raw = src[i:e + 1], src[m.start():e + 1]
            if m.group(1):
                text = _re4.sub(r"\b%s\b" % _re4.escape(m.group(1)), "rhs", text)
        text = _L4.apply_rules(_L4.apply_rules(_L4.resolve_pp(text), self.rules), _L4.GENERIC_RULES)
        return {"text": text, "line": line, "file": self.src, "raw": raw, "nloops": 0, "header": ""}


import os
_MM_RULES = [
    Sub(r"(?<![\w.>])(\w+) = std::move\(rhs\.(\w+)\);", r"self->\1 = rhs->\2;", None),
    Sub(r"(?<![\w.>])(\w+) = rhs\.(\w+);", r"self->\1 = rhs->\2;", None),
    Sub(r"\brhs\.", "rhs->", None),
    Sub(r"async_rw_mutex_access_type::(\w+)", r"access_\1", None),
    Sub(r"return \*this;", "return self;", None),
]
for _i, _nm, _hv in [(0, "void", 0), (1, "T", 1)]:
    UNITS.append(Unit("mutex.move_assign." + _nm, "mutex_move.c", defines=["HAS_VALUE=%d" % _hv], enforce="mutex_move_assign",
                      lifts={"body": _MutexMoveAssign(HPP, _i, _MM_RULES)},
                      funcs=[HPP + ": async_rw_mutex<%s>::operator=(async_rw_mutex&&)" % ("void, void, Allocator" if _hv == 0 else "ReadWriteT, ReadT, Allocator")],
                      min_obligations=3,
                      doc="F: the assigned-to mutex takes over the other mutex's current shared state TOGETHER with the kind of its last access (and allocator, value)"))
