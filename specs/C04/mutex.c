/* units: async_rw_mutex<void,...>::read / readwrite and async_rw_mutex<T,...>::read / readwrite (-DNONVOID)
 * (I contract: representation invariant over a ghost request history + T contract on the release/link calls)
 *
 * Ghost request history: g_last = kind of the previous request (NONE before the first one).  The harness starts
 * from ANY mutex state that satisfies the representation invariant INV(g_last) -- i.e. after an arbitrary history --
 * and the contract re-establishes INV(<this request>), so the statement holds for every request sequence by
 * induction on its length.
 *
 * Objects: g_cur = the current group (if any request was made), g_fresh[] = what allocate_shared returns.
 * std::shared_ptr<group> = plain pointer + ghost use count g_refs in the pointee (trusted, see sp_*);
 * std::shared_ptr<T> value = opaque token + ghost use count g_value_refs.
 */
#include "c04.h"

enum { access_read = 0, access_readwrite = 1 };
enum { REQ_NONE = 0, REQ_READ = 1, REQ_READWRITE = 2 };
typedef struct ss *sp_t;
struct mutex { void *value; int alloc; int prev_access; sp_t state; };
struct sender { int access; sp_t state; };

static struct mutex *vx_self;
static struct ss g_cur, g_fresh[2];
static int g_value_obj;           /* the wrapped value (opaque) */
static int g_last;                /* ghost: kind of the previous request */
static long g_allocs;             /* groups allocated by this call */
static long g_links;              /* set_next_state calls made by this call */
static struct ss *g_link_pred, *g_link_succ;
static long g_direct_done;        /* done() calls made directly by this call (first-access release) */
static struct ss *g_direct_done_on;
static bool g_cur_destroyed;      /* the previous group lost its last reference inside this call */
static long g_value_refs;         /* use count of the value's control block */
static long g_senders;            /* senders constructed by this call */

#ifdef NONVOID
#define VALUE_OK(g) ((g)->value == (void *) &g_value_obj)
#else
#define VALUE_OK(g) 1
#endif

/* representation invariant of the mutex after a history whose last request was `last` */
#define INV(m, last) ( \
    (((last) == REQ_NONE) == ((m)->state == NULL)) && \
    ((m)->prev_access == access_read || (m)->prev_access == access_readwrite) && \
    (((m)->prev_access == access_readwrite) == ((last) != REQ_READ)) && \
    ((m)->state == NULL || ((m)->state->next_state == NULL && (m)->state->g_refs >= 1 && \
                            (m)->state->g_done_calls >= 0 && (m)->state->g_done_calls <= 1 && VALUE_OK((m)->state))) && \
    VALUE_OK(m) )

/* ---- std::shared_ptr / std::allocate_shared (trusted) ---- */
static sp_t sp_move(sp_t *src) { sp_t t = *src; *src = NULL; return t; }
static sp_t sp_copy(sp_t p) { if (p && p->g_refs < VX_BIG) p->g_refs++; return p; }
static void *val_copy(void *v) { if (v && g_value_refs < VX_BIG) g_value_refs++; return v; }
static void *val_raw(void *v) { return v; }   /* shared_ptr<T>::get(): the address without a share of the ownership */
static void ss_done_from_dtor(struct ss *p);
static void sp_release(sp_t *sp)
{
  sp_t g = *sp;
  *sp = NULL;
  if (!g) return;
  VX_ASSERT(g->g_refs >= 1, "shared_ptr ledger: releasing a reference that is not held");
  g->g_refs--;
  if (g->g_refs == 0)
  {
    /* last reference: the group is destroyed.  Contract of ~async_rw_mutex_shared_state_base (dtor.c): the link to
     * the successor is dropped, then done() of the successor is called; the group's value reference is dropped. */
    if (g == &g_cur) g_cur_destroyed = true;
    sp_t n = g->next_state;
    g->next_state = NULL;
    if (n) { VX_ASSERT(n->g_refs >= 2, "PIKA_ASSERT(next_state.use_count() > 1) in the destructor of the previous group"); n->g_refs--; ss_done_from_dtor(n); }
    if (g->value) { g->value = NULL; g_value_refs--; }
  }
}
static void sp_assign(sp_t *dst, sp_t src) { sp_t old = *dst; *dst = src; sp_release(&old); }
static sp_t sp_allocate_shared(int alloc)
{
  VX_ASSERT(g_allocs < 2, "model limit: at most two groups are allocated per request");
  if (g_allocs >= 2) return NULL;
  sp_t g = &g_fresh[g_allocs];
  g_allocs++;
  g->next_state = NULL;
  g->op_state_head = NULL;
  g->value = NULL;
  g->g_refs = 1;
  g->g_done_calls = 0;
  return g;
}

/* ---- member functions of the group, bound to their contracts ---- */
#define PUBLISH_CHECK(g) VX_ASSERT(VALUE_OK(g), "non-void: a new group receives the value pointer BEFORE it is published")
/* set_next_state (contract proved in dtor.c; its PIKA_ASSERTs are the caller's duty and are re-proved here) */
static void ss_set_next_state(struct ss *prev, sp_t state)
{
  VX_ASSERT(prev->next_state == NULL, "PIKA_ASSERT(!next_state): set_next_state is called at most once per group");
  VX_ASSERT(state != NULL, "PIKA_ASSERT(state)");
  VX_ASSERT(state != prev, "a group is never its own successor");
  if (state) PUBLISH_CHECK(state);
  VX_ASSERT(g_links == 0, "a new group is linked to its predecessor exactly once");
  if (g_links < 2) g_links++;
  g_link_pred = prev;
  g_link_succ = state;
  sp_t old = prev->next_state;
  prev->next_state = state; /* the reference passed in now lives in prev->next_state */
  sp_release(&old);
}
static void done_common(struct ss *p)
{
  VX_ASSERT(p->g_done_calls == 0, "done() is called at most once per group");
  if (p->g_done_calls < 2) p->g_done_calls++;
  PUBLISH_CHECK(p);
}
/* done() called by the lifted text */
static void ss_done(struct ss *p)
{
  VX_ASSERT(p != NULL && p->g_refs >= 1, "done() on a live group");
  if (!p) return;
  if (g_direct_done < 2) g_direct_done++;
  g_direct_done_on = p;
  done_common(p);
}
/* done() called by the destructor of the predecessor (modelled in sp_release) */
static void ss_done_from_dtor(struct ss *p) { done_common(p); }
/* async_rw_mutex_shared_state<T>::set_value (PIKA_ASSERT(v), PIKA_ASSERT(!value) re-proved here) */
static void ss_set_value(struct ss *g, void *v)
{
  VX_ASSERT(g != NULL, "set_value on a group");
  VX_ASSERT(v != NULL, "PIKA_ASSERT(v)");
  if (!g) return;
  VX_ASSERT(g->value == NULL, "PIKA_ASSERT(!value)");
  g->value = v;
}
/* sender<AccessType>{state} */
static struct sender sender_make(int access, sp_t state)
{
  struct sender s;
  VX_ASSERT(state != NULL, "the sender refers to a group");
  if (state) PUBLISH_CHECK(state);
  if (g_senders < 2) g_senders++;
  s.access = access;
  s.state = state;
  return s;
}

#define MUTEX_FRAME self->state, self->prev_access, g_cur, g_fresh[0], g_fresh[1], g_allocs, g_links, g_link_pred, g_link_succ, g_direct_done, \
                    g_direct_done_on, g_cur_destroyed, g_value_refs, g_senders
#define PRE(self) (self == vx_self && (self->state == NULL || self->state == &g_cur) && INV(self, g_last) && g_allocs == 0 && g_links == 0 && \
                   g_direct_done == 0 && !g_cur_destroyed && g_senders == 0 && g_value_refs >= 1 && g_value_refs < VX_BIG - 4 && \
                   (self->state == NULL || self->state->g_refs < VX_BIG - 4) /* ghost counters bounded: no overflow noise */)
/* the request opened a NEW group: allocated once, it is the mutex's current group and the sender's group; the mutex
 * dropped its reference to the previous group; the new group is released-or-linked exactly once:
 *   first request        -> released immediately by done(), not linked
 *   there is a predecessor -> linked to exactly that predecessor, exactly once, and NOT released by this call's text
 *                             (it is released by the predecessor's destructor, possibly already inside this call) */
#define OPENED(self, ret, old_state, old_refs, old_vrefs) ( \
    g_allocs == 1 && self->state == &g_fresh[0] && (ret).state == self->state && g_senders == 1 && \
    ((old_state) == NULL ? (g_links == 0 && g_direct_done == 1 && g_direct_done_on == self->state && self->state->g_done_calls == 1) \
                         : (g_links == 1 && g_link_pred == (old_state) && g_link_succ == self->state && g_direct_done == 0 && \
                            self->state->g_done_calls == (g_cur_destroyed ? 1 : 0) && \
                            (g_cur_destroyed ? (old_refs) == 1 : g_cur.g_refs == (old_refs) - 1))) && \
    self->state->g_refs == 2 + (((old_state) != NULL && !g_cur_destroyed) ? 1 : 0) && \
    VALUE_REFS_OPENED(old_vrefs) )
/* the request JOINED the current group: nothing allocated, linked or released; the sender shares the group */
#define JOINED(self, ret, old_state, old_refs, old_vrefs) ( \
    g_allocs == 0 && g_links == 0 && g_direct_done == 0 && !g_cur_destroyed && self->state == (old_state) && (ret).state == (old_state) && \
    g_senders == 1 && (old_state)->g_refs == (old_refs) + 1 && g_value_refs == (old_vrefs) )
#ifdef NONVOID
#define VALUE_REFS_OPENED(old_vrefs) (g_value_refs == (old_vrefs) + 1 - (g_cur_destroyed ? 1 : 0))
#else
#define VALUE_REFS_OPENED(old_vrefs) (g_value_refs == (old_vrefs))
#endif

#ifdef U_READ
//@FUNC
struct sender mutex_read(struct mutex *self)
__CPROVER_requires(PRE(self))
__CPROVER_ensures(INV(self, REQ_READ) && __CPROVER_return_value.access == access_read)
/* read opens a new group iff the previous request was readwrite (or there was none) ... */
__CPROVER_ensures(g_last != REQ_READ ==> OPENED(self, __CPROVER_return_value, __CPROVER_old(self->state), __CPROVER_old(g_cur.g_refs), __CPROVER_old(g_value_refs)))
/* ... otherwise it returns the current group */
__CPROVER_ensures(g_last == REQ_READ ==> JOINED(self, __CPROVER_return_value, __CPROVER_old(self->state), __CPROVER_old(g_cur.g_refs), __CPROVER_old(g_value_refs)))
__CPROVER_assigns(MUTEX_FRAME)
//@LIFT body
#endif

#ifdef U_READWRITE
//@FUNC
struct sender mutex_readwrite(struct mutex *self)
__CPROVER_requires(PRE(self))
__CPROVER_ensures(INV(self, REQ_READWRITE) && __CPROVER_return_value.access == access_readwrite)
/* readwrite always opens a new group */
__CPROVER_ensures(OPENED(self, __CPROVER_return_value, __CPROVER_old(self->state), __CPROVER_old(g_cur.g_refs), __CPROVER_old(g_value_refs)))
__CPROVER_assigns(MUTEX_FRAME)
//@LIFT body
#endif

void harness(void)
{
  struct mutex m;
  vx_self = &m;
  g_last = nondet_int();
  m.alloc = 0;
  m.prev_access = nondet_int();
  m.state = nondet_bool() ? &g_cur : NULL;
#ifdef NONVOID
  m.value = &g_value_obj;
  g_cur.value = nondet_bool() ? (void *) &g_value_obj : NULL;
#else
  m.value = NULL;
  g_cur.value = NULL;
#endif
  g_cur.next_state = nondet_bool() ? &g_fresh[1] : NULL;
  g_cur.op_state_head = NULL;
  g_cur.g_refs = nondet_long();
  g_cur.g_done_calls = nondet_long();
  g_value_refs = nondet_long();
  g_allocs = 0;
  g_links = 0;
  g_direct_done = 0;
  g_cur_destroyed = false;
  g_senders = 0;
  long refs0 = g_cur.g_refs;
#ifdef U_READ
  struct sender s = mutex_read(&m);
  if (g_last == REQ_READ) VX_REACH("joined_current_read_group");
  if (g_last == REQ_READWRITE) VX_REACH("opened_group_after_readwrite");
#endif
#ifdef U_READWRITE
  struct sender s = mutex_readwrite(&m);
  if (g_last == REQ_READ) VX_REACH("opened_group_after_read");
  if (g_last == REQ_READWRITE) VX_REACH("opened_group_after_readwrite");
#endif
  if (g_last == REQ_NONE) VX_REACH("first_request_released_immediately");
  if (g_links == 1 && g_cur_destroyed) VX_REACH("predecessor_already_finished_releases_new_group");
  if (g_links == 1 && !g_cur_destroyed && refs0 > 1) VX_REACH("predecessor_still_in_use");
}
