/* BOUNDED cross-check of done.c (never counted as proof): the same lifted text of done(), run by unwinding on a
 * chain of 0..3 genuinely distinct operation states built by the harness.  No loop contract, no recycled storage,
 * no lazily instantiated well-formedness, no assumption: every node carries its own "continued" counter and the
 * call order is not prescribed. */
#include "c04.h"

static struct ss *vx_self;
static struct op g_node[3];
static struct op g_junk;
static long g_calls[3];
static long g_n, g_total;
static bool g_self_dead, lin;
static void *lin_old, *lin_new;

static struct ss *vx_live(struct ss *p)
{
  VX_ASSERT(!g_self_dead, "done() touches *this after the last continuation (the group may already be destroyed)");
  return p;
}
static void *atomic_exchange_ptr(void **p, void *desired)
{
  VX_ASSERT(!lin, "at most one successful atomic step per call");
  lin_old = *p;
  *p = desired;
  lin_new = desired;
  lin = true;
  return lin_old;
}
static void *atomic_load_ptr(void **p) { return *p; }
static void atomic_store_ptr(void **p, void *desired) { VX_ASSERT(0, "guarantee: a blind store may lose operation states pushed concurrently"); *p = desired; }
static void op_continuation(struct op *p)
{
  VX_ASSERT(lin, "continuations run only after the exchange has closed the queue");
  int j = p == &g_node[0] ? 0 : p == &g_node[1] ? 1 : p == &g_node[2] ? 2 : -1;
  VX_ASSERT(j >= 0 && j < g_n, "continuation() is called on a node of the captured chain");
  if (j < 0 || j >= g_n) return;
  VX_ASSERT(g_calls[j] == 0, "continuation() is called on a node that was already continued (it may be destroyed)");
  g_calls[j]++;
  g_total++;
  /* the operation state may be destroyed during the call */
  p->next = nondet_bool() ? (void *) 0 : (void *) &g_junk;
  if (g_total == g_n && nondet_bool())
  {
    g_self_dead = true;
    vx_self->op_state_head = (void *) &g_junk;
  }
}

//@FUNC
void done(struct ss *self)
__CPROVER_requires(self == vx_self && !lin && !g_self_dead && g_total == 0 && 0 <= g_n && g_n <= 3)
__CPROVER_requires(g_calls[0] == 0 && g_calls[1] == 0 && g_calls[2] == 0)
__CPROVER_ensures(lin && lin_new == SENTINEL(self))
__CPROVER_ensures(g_total == g_n && (g_n <= 0 || g_calls[0] == 1) && (g_n <= 1 || g_calls[1] == 1) && (g_n <= 2 || g_calls[2] == 1))
__CPROVER_ensures(g_self_dead || self->op_state_head == SENTINEL(self))
__CPROVER_assigns(self->op_state_head, lin, lin_old, lin_new, g_total, g_self_dead, __CPROVER_object_whole(g_calls), __CPROVER_object_whole(g_node))
//@LIFT body

void harness(void)
{
  struct ss s;
  vx_self = &s;
  s.next_state = NULL;
  g_n = nondet_long();
  g_total = 0;
  g_calls[0] = g_calls[1] = g_calls[2] = 0;
  lin = false;
  g_self_dead = false;
  /* LIFO chain: the head is the most recently pushed node g_node[g_n - 1] */
  g_node[0].next = NULL;
  g_node[1].next = &g_node[0];
  g_node[2].next = &g_node[1];
  s.op_state_head = g_n == 1 ? &g_node[0] : g_n == 2 ? &g_node[1] : g_n == 3 ? &g_node[2] : NULL;
  done(&s);
  VX_REACH("returned");
  if (g_n == 0) VX_REACH("empty_queue");
  if (g_n == 3) VX_REACH("three_waiters");
  if (g_self_dead) VX_REACH("group_destroyed_by_last_continuation");
}
