/* units: ~async_rw_mutex_shared_state_base, set_next_state, set_value   (T contracts + reference ledger)
 *
 * std::shared_ptr<group> is a plain pointer; the control block is the pointee's ghost field g_refs (trusted model:
 * copy +1, destruction/reset -1, move 0, the pointee is destroyed when the count reaches 0).
 */
#include "c04.h"

static struct ss *vx_self;          /* the group under destruction / the receiver of set_next_state */
static struct ss *vx_next;          /* its successor group (NULL if none was ever linked) */
static long g_resets;               /* next_state.reset() calls that dropped a reference */
static long g_done_total;           /* done() calls made by the function under contract */
static bool g_destroyed_by_reset;   /* the reset dropped the LAST reference: the successor was destroyed by it (its own
                                       destructor then releases ITS successor) */
static bool g_next_dead;            /* the successor no longer exists */

/* ---- std::shared_ptr (trusted) ---- */
static struct ss *sp_get(struct ss **sp) { return *sp; }
static long sp_use_count(struct ss **sp) { return *sp ? (*sp)->g_refs : 0; }
static void sp_release(struct ss **sp)
{
  if (*sp)
  {
    VX_ASSERT((*sp)->g_refs >= 1, "shared_ptr ledger: releasing a reference that is not held");
    (*sp)->g_refs--;
    if ((*sp)->g_refs == 0 && *sp == vx_next) { g_next_dead = true; g_destroyed_by_reset = true; }
    *sp = NULL;
  }
}
static void sp_reset(struct ss **sp)
{
  if (*sp && g_resets < 2) g_resets++;
  sp_release(sp);
}
/* dst = std::move(src) */
static void sp_move_assign(struct ss **dst, struct ss **src)
{
  struct ss *t = *src;
  *src = NULL;
  sp_release(dst);
  *dst = t;
}
/* dst = src */
static void sp_copy_assign(struct ss **dst, struct ss **src)
{
  struct ss *t = *src;
  if (t && t->g_refs < VX_BIG) t->g_refs++;
  sp_release(dst);
  *dst = t;
}
/* ---- done() of the successor group (its contract is proved in done.c) ---- */
static void ss_done(struct ss *p)
{
  VX_ASSERT(vx_self->next_state == NULL, "next_state is reset BEFORE done() of the next group is called");
  VX_ASSERT(p == vx_next && !g_next_dead, "done() is called on a group that no longer exists (the reset dropped its last reference)");
  if (p != vx_next || g_next_dead) return;
  VX_ASSERT(p->g_done_calls == 0, "done() is called at most once per group");
  if (p->g_done_calls < 2) p->g_done_calls++;
  if (g_done_total < 2) g_done_total++;
  /* done() runs the queued continuations; the last one may drop the last reference to the group */
  if (nondet_bool()) { p->g_refs = 0; g_next_dead = true; }
}

#define DTOR_FRAME self->next_state, g_resets, g_done_total, g_destroyed_by_reset, g_next_dead, vx_next->g_refs, vx_next->g_done_calls

#ifdef KF_NO_OPSTATE_DROPPED_UNSTARTED
#define KF_REFS_PRE (vx_next == NULL || vx_next->g_refs > 1)
#else
#define KF_REFS_PRE 1
#endif

#ifdef U_DTOR
//@FUNC
void ss_dtor(struct ss *self)
__CPROVER_requires(self == vx_self && self->next_state == vx_next && vx_next != self && g_resets == 0 && g_done_total == 0 && !g_destroyed_by_reset && !g_next_dead)
/* a linked successor is alive (we hold a reference) and has not been released yet: the only other done() call
 * sites are the first-access branches of read()/readwrite(), taken only for a group WITHOUT predecessor (mutex.c) */
__CPROVER_requires(vx_next == NULL || (vx_next->g_refs >= 1 && vx_next->g_refs <= VX_BIG && vx_next->g_done_calls == 0))
/* only with -DKF_NO_OPSTATE_DROPPED_UNSTARTED (input-class exclusion for a known finding): the authors'
 * PIKA_ASSERT(next_state.use_count() > 1), i.e. somebody else still refers to the successor */
__CPROVER_requires(KF_REFS_PRE)
__CPROVER_ensures(self->next_state == NULL)
/* no successor: nothing is released */
__CPROVER_ensures(vx_next == NULL ==> (g_resets == 0 && g_done_total == 0))
/* a successor: our reference is dropped exactly once and the successor is released exactly once -- by done(), or,
 * if ours was the last reference (no access of the successor is pending), by its destruction */
__CPROVER_ensures(vx_next != NULL ==> (g_resets == 1 && (g_destroyed_by_reset ? g_done_total == 0 : (g_done_total == 1 && vx_next->g_done_calls == 1))))
__CPROVER_assigns(vx_next != NULL: DTOR_FRAME; vx_next == NULL: self->next_state, g_resets, g_done_total, g_destroyed_by_reset, g_next_dead)
//@LIFT body
#endif

#ifdef U_SET_NEXT_STATE
//@FUNC
void set_next_state(struct ss *self, struct ss *state)
__CPROVER_requires(/* PIKA_ASSERT(!next_state), PIKA_ASSERT(state): the caller's duties, re-proved at every call site (mutex.c) */
                   self == vx_self && state == vx_next && self->next_state == NULL && state != NULL && state != self && state->g_refs >= 1 && state->g_refs < VX_BIG)
/* the reference passed in now lives in next_state: nothing dropped, nothing duplicated */
__CPROVER_ensures(self->next_state == vx_next && vx_next->g_refs == __CPROVER_old(vx_next->g_refs) && !g_next_dead)
__CPROVER_assigns(DTOR_FRAME)
//@LIFT body
#endif

#ifdef U_SET_VALUE
/* std::shared_ptr<T> value: opaque token + ghost use count */
static long g_value_refs;
static void *vx_v;
static void val_release(void **v) { if (*v) { g_value_refs--; *v = NULL; } }
static void val_move_assign(void **dst, void **src) { void *t = *src; *src = NULL; val_release(dst); *dst = t; }
static void val_copy_assign(void **dst, void **src) { void *t = *src; if (t) g_value_refs++; val_release(dst); *dst = t; }
//@FUNC
void set_value(struct ss *self, void *v)
__CPROVER_requires(/* PIKA_ASSERT(v), PIKA_ASSERT(!value): the caller's duties, re-proved at every call site (mutex.c) */
                   self == vx_self && v == vx_v && v != NULL && self->value == NULL && g_value_refs >= 1 && g_value_refs < VX_BIG)
/* the group now holds the value reference that was passed in: nothing dropped, nothing duplicated */
__CPROVER_ensures(self->value == vx_v && g_value_refs == __CPROVER_old(g_value_refs))
__CPROVER_assigns(self->value, g_value_refs)
//@LIFT body
#endif

void harness(void)
{
  struct ss s, n;
  vx_self = &s;
  s.g_refs = 0;
  s.op_state_head = NULL;
  n.next_state = NULL;
  n.op_state_head = NULL;
  n.g_refs = nondet_long();
  n.g_done_calls = nondet_long();
  g_resets = 0;
  g_done_total = 0;
  g_destroyed_by_reset = false;
  g_next_dead = false;
#ifdef U_DTOR
  vx_next = nondet_bool() ? &n : NULL;
  s.next_state = vx_next;
  long refs0 = n.g_refs;
  ss_dtor(&s);
  if (vx_next == NULL) VX_REACH("no_successor");
  if (vx_next != NULL && g_done_total == 1) VX_REACH("successor_released_by_done");
  if (vx_next != NULL && g_done_total == 1 && refs0 > 2) VX_REACH("successor_has_pending_accesses");
#ifndef KF_NO_OPSTATE_DROPPED_UNSTARTED
  if (vx_next != NULL && refs0 == 1) VX_REACH("ours_is_the_last_reference");
#endif
#endif
#ifdef U_SET_NEXT_STATE
  vx_next = &n;
  s.next_state = nondet_bool() ? &n : NULL;
  set_next_state(&s, &n);
  VX_REACH("linked");
#endif
#ifdef U_SET_VALUE
  int payload;
  vx_v = nondet_bool() ? (void *) &payload : NULL;
  s.value = nondet_bool() ? (void *) &payload : NULL;
  g_value_refs = nondet_long();
  set_value(&s, vx_v);
  VX_REACH("value_attached");
#endif
}
