/* unit: detail::async_rw_mutex_shared_state_base::done   (S step on op_state_head + T contract on the traversal)
 *
 * Model of the captured chain.  g_n is the length of the chain that the exchange captures: symbolic, any value in
 * 0..10^9.  Nothing is unrolled: the traversal is verified by a loop contract over the ghost position g_pos, and
 * "every node exactly once" is stated for ONE symbolic victim position g_k (no quantifier).
 *   - storage: the node at position j (0 = head = most recently pushed) lives in g_cell[j & 3].  A traversal step
 *     only holds pointers to nodes j and j+1; any 4 consecutive nodes are distinct objects, and the storage of a
 *     node is reused (for node j+4) only after that node has died.  (ss.done.b3, done_b3.c, re-checks the same contract
 *     on a chain of up to 3 genuinely distinct, harness-built nodes without any of this.)
 *   - well-formedness of the chain (node j's `next` is node j+1, the last `next` is nullptr) is what add_op_state's
 *     postcondition `op_state->next == lin_old` establishes push by push; the model materialises it lazily, two
 *     nodes ahead of the traversal (harness: nodes 0 and 1; op_continuation: node g_pos + 2) -- by writing, not by
 *     assuming, and the stub asserts that the link of the node being continued is still intact;
 *   - the operation state may be destroyed inside continuation() (the receiver completes and its owner frees the
 *     operation state): the stub overwrites the node with garbage, so a `next` read after the call is garbage;
 *   - the LAST continuation may drop the last reference to this group, so `*this` may be destroyed inside it:
 *     the stub overwrites *this with garbage and every later access to a member of *this is an obligation failure.
 */
#include "c04.h"
#define CHAIN_MAX VX_BIG
#define CELLS 4

static struct ss *vx_self;
static struct op g_cell[CELLS];
static struct op g_junk;       /* what a dangling pointer may point to */
static long g_n;            /* length of the chain captured by the exchange */
static long g_pos;          /* number of continuations run so far == position of the next node to be continued */
static long g_k;            /* symbolic victim position */
static long g_victim_calls; /* number of continuation() calls the victim has received */
static bool g_self_dead;    /* *this has been destroyed */
static bool g_pushed;       /* a concurrent add_op_state pushed before the exchange */

static bool lin;
static void *lin_old, *lin_new;

#define CELL(j) g_cell[(j) & (CELLS - 1)]
#define NODE(j) ((j) < g_n ? &CELL(j) : (struct op *) NULL)
#define GARBAGE() (nondet_bool() ? (void *) 0 : (void *) &g_junk)

/* every access to a member of *this goes through here */
static struct ss *vx_live(struct ss *p)
{
  VX_ASSERT(!g_self_dead, "done() touches *this after the last continuation (the group may already be destroyed)");
  return p;
}

/* rely for done(): until the exchange other threads only push (add_op_state's guarantee); nobody else installs the
 * sentinel because done() is called at most once per group (dtor.c, mutex.c).  A push makes the chain longer;
 * positions are counted from the new head. */
static void interfere(void **p)
{
  if (nondet_bool())
  {
    long m = nondet_long();
    VX_ASSUME(m > g_n && m <= CHAIN_MAX); /* environment step: m - g_n operation states were pushed */
    g_n = m;
    CELL(0).next = NODE(1);
    CELL(1).next = NODE(2);
    *p = &CELL(0);
    g_pushed = true;
  }
}
/* std::atomic<void*>::exchange */
static void *atomic_exchange_ptr(void **p, void *desired)
{
  if (!lin) interfere(p);
  VX_ASSERT(!lin, "at most one successful atomic step per call");
  lin_old = *p;
  *p = desired;
  lin_new = desired;
  lin = true;
  VX_ASSERT(lin_new == SENTINEL(vx_self), "guarantee: done() closes the queue by installing the sentinel `this`");
  return lin_old;
}
/* std::atomic<void*>::load / store (not used by done() today; bound so that an edit that introduces them is decided
 * against the contract instead of failing extraction) */
static void *atomic_load_ptr(void **p)
{
  if (!lin) interfere(p);
  return *p;
}
static void atomic_store_ptr(void **p, void *desired)
{
  if (!lin) interfere(p);
  VX_ASSERT(!lin, "at most one successful atomic step per call");
  lin_old = *p;
  *p = desired;
  lin_new = desired;
  lin = true;
  VX_ASSERT(0, "guarantee: a blind store may lose operation states pushed concurrently");
}
/* async_rw_mutex_operation_state_base::continuation (virtual; its implementations are verified in sender.c) */
static void op_continuation(struct op *p)
{
  VX_ASSERT(lin, "continuations run only after the exchange has closed the queue");
  VX_ASSERT(g_pos < g_n && p == &CELL(g_pos), "continuation() is called on the next live node of the captured chain and on nothing else");
  VX_ASSERT(CELL(g_pos).next == NODE(g_pos + 1), "done() must not modify the queued operation states' links");
  if (g_pos == g_k && g_victim_calls < 2) g_victim_calls++;
  /* the operation state may be destroyed during the call */
  CELL(g_pos).next = GARBAGE(); /* == p->next; written through the cell: p is a havocked pointer for CBMC */
  CELL(g_pos).state = NULL;
  g_pos++;
  if (g_pos == g_n && nondet_bool())
  {
    /* that was the last reference to this group: *this is destroyed */
    g_self_dead = true;
    vx_self->op_state_head = GARBAGE();
    vx_self->next_state = NULL;
  }
  /* materialise the chain two nodes ahead of the traversal (no assumption: the stub WRITES the `next` of the node
   * after the next one into storage whose previous occupant, node g_pos - 3, is dead; that it is still intact when the
   * traversal gets there is asserted above) */
  if (g_pos + 1 < g_n) CELL(g_pos + 1).next = NODE(g_pos + 2);
}

#define DONE_FRAME self->op_state_head, self->next_state, lin, lin_old, lin_new, g_n, g_pos, g_victim_calls, g_self_dead, g_pushed, __CPROVER_object_whole(g_cell)

//@FUNC
void done(struct ss *self)
__CPROVER_requires(self == vx_self && !lin && !g_self_dead && g_pos == 0 && g_victim_calls == 0)
/* the queue is not closed yet (done() at most once per group) and holds a well-formed chain of g_n nodes */
__CPROVER_requires(0 <= g_n && g_n <= CHAIN_MAX && self->op_state_head == NODE(0) && (g_n <= 0 || CELL(0).next == NODE(1)) && (g_n <= 1 || CELL(1).next == NODE(2)))
/* the exchange installed the sentinel */
__CPROVER_ensures(lin && lin_new == SENTINEL(self) && lin_old == NODE(0))
/* every node of the captured chain was continued (and, by the stub's assertion, nothing else was) ... */
__CPROVER_ensures(g_pos == g_n)
/* ... exactly once: the symbolic victim */
__CPROVER_ensures(g_victim_calls == ((0 <= g_k && g_k < g_n) ? 1 : 0))
__CPROVER_ensures(g_self_dead || self->op_state_head == SENTINEL(self))
__CPROVER_assigns(DONE_FRAME)
//@LIFT body

void harness(void)
{
  struct ss s;
  vx_self = &s;
  s.next_state = NULL;
  lin = false;
  g_self_dead = false;
  g_pushed = false;
  g_pos = 0;
  g_victim_calls = 0;
  g_n = nondet_long();
  g_k = nondet_long();
  bool inrange = g_n > 0 && g_n <= CHAIN_MAX;
  s.op_state_head = inrange ? &g_cell[0] : NULL;
  g_cell[0].next = (inrange && g_n > 1) ? &g_cell[1] : NULL;
  g_cell[1].next = (inrange && g_n > 2) ? &g_cell[2] : NULL;
  done(&s);
  VX_REACH("returned");
  if (g_n == 0) VX_REACH("empty_queue");
  if (g_n == 1) VX_REACH("one_waiter");
  if (g_n > 3 && g_victim_calls == 1 && g_k == 2) VX_REACH("victim_in_the_middle");
  if (g_victim_calls == 0) VX_REACH("victim_not_in_chain");
  if (g_self_dead) VX_REACH("group_destroyed_by_last_continuation");
  if (g_pushed) VX_REACH("push_before_exchange");
}
