/* units: sender<AccessType>::operation_state<R>::start / continuation, sender::~sender, sender::connect
 * (T contracts: ghost counters on the receiver's completion channels, the queueing call and start_detached)
 *
 * The receiver is an opaque token; its completion functions are stubs that count.  set_value may throw (lowered
 * try/catch).  After a completion signal has been delivered the operation state may be destroyed by its owner at any
 * time; after add_op_state returned true a concurrent done() may run the continuation and the operation state may be
 * destroyed as well: from then on every access to a member of *this is an obligation failure.
 */
#define VX_TRY_BEGIN(k) (vx_exc = false)
#define VX_CATCH_BEGIN(k) (vx_exc = false)
#define VX_THROW_TO(label) do { if (vx_exc) goto label; } while (0)
#define VX_THROW_ESCAPES() VX_ASSERT(!vx_exc, "an exception escapes the noexcept continuation() (std::terminate): the receiver is never completed")
#include "c04.h"

typedef struct ss *sp_t;
struct sender { int access; sp_t state; };
struct wrapper { sp_t state; };

static bool vx_exc;                 /* an exception is in flight */
static struct op *vx_self;          /* the operation state under contract */
static struct sender *vx_sender;    /* the sender under contract */
static struct ss *vx_group;         /* the group the operation state / sender refers to */
static bool g_op_dead;              /* the operation state may already be destroyed */
static long g_value_calls, g_value_completed, g_error_calls;
static bool g_value_threw;
static struct ss *g_wrapper_state;  /* the group reference the receiver got inside the access wrapper */
static long g_live_wrapper_temps;   /* access wrappers constructed by the continuation and not yet consumed/destroyed */
static long g_add_calls, g_inline_cont, g_detached;
static bool g_add_ret;

/* every access to a member of *this (operation state) goes through here */
static struct op *vx_live_op(struct op *p)
{
  VX_ASSERT(!g_op_dead, "the operation state is touched after it may have been completed/destroyed");
  return p;
}

/* ---- std::shared_ptr (trusted; see dtor.c) ---- */
static sp_t sp_move(sp_t *src) { sp_t t = *src; *src = NULL; return t; }
static sp_t sp_copy(sp_t p) { if (p && p->g_refs < VX_BIG) p->g_refs++; return p; }
static void sp_release(sp_t *sp)
{
  if (*sp)
  {
    VX_ASSERT((*sp)->g_refs >= 1, "shared_ptr ledger: releasing a reference that is not held");
    (*sp)->g_refs--;
    *sp = NULL;
  }
}
static void sp_reset(sp_t *sp) { sp_release(sp); }

/* ---- access wrapper: access_type{shared_state} ---- */
static struct wrapper wrapper_make(sp_t st)
{
  struct wrapper w;
  w.state = st;
  if (g_live_wrapper_temps < 2) g_live_wrapper_temps++;
  return w;
}
/* ---- receiver channels (T stubs) ---- */
static void rcv_set_value(int *r, struct wrapper w)
{
  VX_ASSERT(r == &vx_self->r, "the operation state's own receiver is signalled");
  VX_ASSERT(w.state != NULL && w.state == vx_group, "continuation() hands the group reference to the access wrapper");
  VX_ASSERT(g_value_calls == 0 && g_error_calls == 0, "the receiver is signalled at most once");
  if (g_value_calls < 2) g_value_calls++;
  g_live_wrapper_temps--;
  if (nondet_bool())
  {
    /* set_value threw: the receiver did not complete; the wrapper temporary dies during unwinding */
    g_value_threw = true;
    sp_release(&w.state);
    vx_exc = true;
    return;
  }
  /* completed: the receiver owns the wrapper (and with it the access); the operation state may be destroyed */
  g_wrapper_state = w.state;
  if (g_value_completed < 2) g_value_completed++;
  if (nondet_bool()) g_op_dead = true;
}
static int vx_current_exception(void)
{
  VX_ASSERT(g_value_threw, "current_exception() outside a handler");
  return 1;
}
static void rcv_set_error(int *r, int eptr)
{
  VX_ASSERT(r == &vx_self->r, "the operation state's own receiver is signalled");
  VX_ASSERT(g_value_threw && g_value_completed == 0, "set_error only after set_value failed");
  VX_ASSERT(vx_self->state == NULL && g_live_wrapper_temps == 0, "the error path releases the group reference BEFORE signalling set_error");
  VX_ASSERT(g_error_calls == 0, "the receiver is signalled at most once");
  if (g_error_calls < 2) g_error_calls++;
  if (nondet_bool()) g_op_dead = true;
}
/* ---- async_rw_mutex_shared_state_base::add_op_state (contract proved in add_op_state.c) ---- */
static bool ss_add_op_state(struct ss *g, struct op *o)
{
  VX_ASSERT(g != NULL && g == vx_group && o == vx_self, "the operation state enqueues itself on its own group");
  if (g_add_calls < 2) g_add_calls++;
  g_add_ret = nondet_bool();
  /* true: published -- a concurrent done() may run continuation() and the owner may destroy the operation state */
  if (g_add_ret && nondet_bool()) g_op_dead = true;
  return g_add_ret;
}
/* continuation() as called by start() (its contract is the unit op.continuation below) */
static void op_continuation(struct op *o)
{
  VX_ASSERT(o == vx_self && !g_op_dead, "continuation() on a live operation state");
  if (g_inline_cont < 2) g_inline_cont++;
  g_op_dead = true; /* it completes the receiver */
}
/* pika::execution::experimental::start_detached(std::move(sender)): connects the rvalue sender (sender::connect &&,
 * unit sender.connect: the group reference moves into the operation state) and starts the operation */
static void start_detached_sender(struct sender *s)
{
  VX_ASSERT(s == vx_sender && s->state != NULL, "start_detached on a sender that still refers to its group");
  if (g_detached < 2) g_detached++;
  s->state = NULL; /* moved into the detached operation state: not dropped */
}
static struct op op_make(int r, sp_t st)
{
  struct op o;
  o.next = NULL;
  o.r = r;
  o.state = st;
  return o;
}

#define OP_FRAME self->state, self->r, self->next, vx_group->g_refs, vx_exc, g_op_dead, g_value_calls, g_value_completed, g_error_calls, g_value_threw, \
                 g_wrapper_state, g_live_wrapper_temps, g_add_calls, g_inline_cont, g_add_ret

#ifdef U_CONTINUATION
//@FUNC
void continuation(struct op *self)
__CPROVER_requires(self == vx_self && self->state == vx_group && vx_group != NULL && vx_group->g_refs >= 1 && vx_group->g_refs < VX_BIG && !g_op_dead && !vx_exc)
__CPROVER_requires(g_value_calls == 0 && g_value_completed == 0 && g_error_calls == 0 && !g_value_threw && g_live_wrapper_temps == 0)
/* exactly one completion signal: set_value completed, or (set_value threw and) set_error */
__CPROVER_ensures(g_value_completed + g_error_calls == 1 && !vx_exc)
/* value channel: the group reference went from the operation state into the wrapper -- not dropped, not duplicated */
__CPROVER_ensures(g_value_completed == 1 ==> (g_wrapper_state == vx_group && vx_group->g_refs == __CPROVER_old(vx_group->g_refs)))
/* error channel: the reference was released (the access is over, the next group can proceed) */
__CPROVER_ensures(g_error_calls == 1 ==> vx_group->g_refs == __CPROVER_old(vx_group->g_refs) - 1)
__CPROVER_ensures(g_live_wrapper_temps == 0 && (g_op_dead || self->state == NULL))
__CPROVER_assigns(OP_FRAME)
//@LIFT body
#endif

#ifdef U_START
//@FUNC
void start(struct op *self)
__CPROVER_requires(self == vx_self && self->state == vx_group && vx_group != NULL && vx_group->g_refs >= 1 && !g_op_dead && g_add_calls == 0 && g_inline_cont == 0)
/* the operation state is offered to the queue exactly once; the continuation runs inline iff the queue was closed */
__CPROVER_ensures(g_add_calls == 1 && g_inline_cont == (g_add_ret ? 0 : 1))
__CPROVER_assigns(OP_FRAME)
//@LIFT body
#endif

#ifdef U_SENDER_DTOR
//@FUNC
void sender_dtor(struct sender *self)
__CPROVER_requires(self == vx_sender && (self->state == NULL || self->state == vx_group) && vx_group->g_refs >= 1 && g_detached == 0)
/* a sender that still refers to its group is started detached (its reference moves on into the operation state, so
 * the group is neither leaked nor released early and the chain of groups cannot stall); a moved-from sender does nothing */
__CPROVER_ensures(g_detached == (__CPROVER_old(self->state) != NULL ? 1 : 0) && self->state == NULL)
__CPROVER_ensures(vx_group->g_refs == __CPROVER_old(vx_group->g_refs))
__CPROVER_assigns(self->state, g_detached, vx_group->g_refs)
//@LIFT body
#endif

#ifdef U_CONNECT_COPY
#define CONNECT_POST(old) (self->state == vx_group && vx_group->g_refs == (old) + 1)
#else
#define CONNECT_POST(old) (self->state == NULL && vx_group->g_refs == (old))
#endif
#ifdef U_CONNECT
//@FUNC
struct op sender_connect(struct sender *self, int r)
__CPROVER_requires(self == vx_sender && self->state == vx_group && vx_group != NULL && vx_group->g_refs >= 1 && vx_group->g_refs < VX_BIG)
/* the operation state refers to the sender's group and carries the receiver */
__CPROVER_ensures(__CPROVER_return_value.state == vx_group && __CPROVER_return_value.r == r && __CPROVER_return_value.next == NULL)
/* connect() &&: the reference moves from the sender into the operation state;
 * connect() const& (-DU_CONNECT_COPY): the sender keeps its reference, the operation state gets its own */
__CPROVER_ensures(CONNECT_POST(__CPROVER_old(vx_group->g_refs)))
__CPROVER_assigns(self->state, vx_group->g_refs)
//@LIFT body
#endif

void harness(void)
{
  struct ss g;
  struct op o;
  struct sender s;
  vx_group = &g;
  vx_self = &o;
  vx_sender = &s;
  g.next_state = NULL;
  g.op_state_head = NULL;
  g.g_refs = nondet_long();
  o.next = NULL;
  o.r = 7;
  o.state = &g;
  s.access = 0;
  vx_exc = false;
  g_op_dead = false;
  g_value_calls = g_value_completed = g_error_calls = 0;
  g_value_threw = false;
  g_live_wrapper_temps = 0;
  g_add_calls = g_inline_cont = g_detached = 0;
#ifdef U_CONTINUATION
  continuation(&o);
  if (g_value_completed == 1) VX_REACH("value_delivered");
  if (g_error_calls == 1) VX_REACH("set_value_threw_error_delivered");
  if (g_op_dead) VX_REACH("operation_state_destroyed_by_receiver");
#endif
#ifdef U_START
  start(&o);
  if (g_add_ret) VX_REACH("queued"); else VX_REACH("ran_inline");
  if (g_add_ret && g_op_dead) VX_REACH("queued_and_already_completed_by_done");
#endif
#ifdef U_SENDER_DTOR
  s.state = nondet_bool() ? &g : NULL;
  sender_dtor(&s);
  if (g_detached == 1) VX_REACH("started_detached"); else VX_REACH("moved_from_sender");
#endif
#ifdef U_CONNECT
  s.state = &g;
  struct op res = sender_connect(&s, 5);
  VX_REACH("connected");
#endif
}
