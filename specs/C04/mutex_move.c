/* C04 -- async_rw_mutex move assignment (both specialisations; `= default` in the pinned tree: the member-wise definition the language
 * prescribes is generated from the class's own data-member list on every run).  The mutex-side bookkeeping is the PAIR (state, prev_access):
 * read() joins the current shared state iff prev_access == read, so a mutex that takes over another mutex's state must take over the kind
 * of that mutex's last access with it (else a read requested next joins a read-WRITE access's state and is granted at once: overlap).
 * F contract, loop free.  (written by main after seeded change C04-9 was missed) */
#include "vx.h"
enum { access_read = 0, access_readwrite = 1 };
struct mutex { void *value; int alloc; int prev_access; void *state; };
//@FUNC
struct mutex *mutex_move_assign(struct mutex *self, struct mutex *rhs)
__CPROVER_requires(self != rhs)
/* the assigned-to mutex continues exactly where the other one was: same current shared state, same kind of last access, same value */
__CPROVER_ensures(self->state == __CPROVER_old(rhs->state) && self->prev_access == __CPROVER_old(rhs->prev_access))
__CPROVER_ensures(self->alloc == __CPROVER_old(rhs->alloc) && (!HAS_VALUE || self->value == __CPROVER_old(rhs->value)))
__CPROVER_ensures(__CPROVER_return_value == self)
__CPROVER_assigns(*self, *rhs)
//@LIFT body

void harness(void)
{
  struct mutex a, b; int s1, s2, v1, v2;
  a.value = nondet_bool() ? &v1 : NULL; a.alloc = nondet_int(); a.prev_access = nondet_bool() ? access_read : access_readwrite; a.state = nondet_bool() ? &s1 : NULL;
  b.value = nondet_bool() ? &v2 : NULL; b.alloc = nondet_int(); b.prev_access = nondet_bool() ? access_read : access_readwrite; b.state = nondet_bool() ? &s2 : NULL;
  int pa = a.prev_access, pb = b.prev_access;
  mutex_move_assign(&a, &b);
  VX_REACH("assigned");
  if (pa == access_read && pb == access_readwrite) VX_REACH("last_accesses_differ");
}
