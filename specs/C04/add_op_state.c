/* unit: detail::async_rw_mutex_shared_state_base::add_op_state   (S contract on the atomic word op_state_head)
 *
 * The word holds: nullptr (empty queue), a pointer to an operation state (head of the LIFO chain), or the sentinel
 * `this` (done() has run: the queue is closed).  add_op_state never dereferences what it reads from the word -- it
 * only compares it with `this` and stores it into op_state->next -- so foreign values are arbitrary bit patterns.
 */
#include "c04.h"

static struct ss *vx_self;
static struct op *vx_op;

/* linearisation ghost: the one successful atomic step of the call under verification */
static bool lin;
static void *lin_old, *lin_new, *g_last_read;
static long g_interfered;

/* rely (what other threads may do to the word between two of our accesses):
 *   - once the sentinel is installed it is final (done() is called at most once per group, add_op_state never
 *     replaces the sentinel: that is exactly the guarantee asserted below and in done.c);
 *   - nobody else can install OUR operation state: it is unpublished until our own CAS succeeds. */
#define RELY(o, n) (((o) != SENTINEL(vx_self) || (n) == SENTINEL(vx_self)) && (n) != (void *) vx_op)
/* guarantee of a successful step of add_op_state (== what the other callers' rely allows: it does not replace the
 * sentinel, it installs the caller's own operation state, whose `next` is the value it replaced) */
#define GUAR(o, n) ((o) != SENTINEL(vx_self) && (n) == (void *) vx_op && vx_op->next == (o))

static void interfere(void **p)
{
  if (nondet_bool())
  {
    void *n = (void *) nondet_ulong();
    VX_ASSUME(RELY(*p, n)); /* environment step: any value the rely allows */
    if (n != *p && g_interfered < 2) g_interfered++;
    *p = n;
  }
}
/* std::atomic<void*>::load */
static void *atomic_load_ptr(void **p)
{
  interfere(p);
  g_last_read = *p;
  return *p;
}
/* std::atomic<void*>::compare_exchange_weak (may fail spuriously; on failure `expected` receives the current value) */
static bool atomic_cas_ptr(void **p, void **expected, void *desired, bool may_fail_spuriously)
{
  interfere(p);
  if (*p == *expected && (!may_fail_spuriously || nondet_bool()))
  {
    VX_ASSERT(!lin, "at most one successful atomic step per call");
    lin_old = *p;
    *p = desired;
    lin_new = desired;
    lin = true;
    VX_ASSERT(lin_old != SENTINEL(vx_self), "guarantee: the sentinel is final -- a successful CAS never replaces `this`");
    VX_ASSERT(GUAR(lin_old, lin_new), "guarantee: the step installs the caller's op_state with op_state->next == replaced head");
    return true;
  }
  *expected = *p;
  g_last_read = *p;
  return false;
}

static bool atomic_cas_weak_ptr(void **p, void **expected, void *desired) { return atomic_cas_ptr(p, expected, desired, true); }
static bool atomic_cas_strong_ptr(void **p, void **expected, void *desired) { return atomic_cas_ptr(p, expected, desired, false); }
/* std::atomic<void*>::exchange / store: unconditional writes (not used by add_op_state today; bound so that an edit that
 * introduces them is decided against the guarantee instead of failing extraction) */
static void *atomic_exchange_ptr(void **p, void *desired)
{
  interfere(p);
  VX_ASSERT(!lin, "at most one successful atomic step per call");
  lin_old = *p;
  *p = desired;
  lin_new = desired;
  lin = true;
  VX_ASSERT(lin_old != SENTINEL(vx_self), "guarantee: the sentinel is final -- an unconditional write may replace `this`");
  VX_ASSERT(GUAR(lin_old, lin_new), "guarantee: the step installs the caller's op_state with op_state->next == replaced head");
  return lin_old;
}
static void atomic_store_ptr(void **p, void *desired) { (void) atomic_exchange_ptr(p, desired); }

//@FUNC
bool add_op_state(struct ss *self, async_rw_mutex_operation_state_base *op_state)
__CPROVER_requires(self == vx_self && op_state == vx_op && !lin && (void *) op_state != (void *) self)
/* the operation state is not published yet */
__CPROVER_requires(self->op_state_head != (void *) op_state)
/* false <=> the deciding read observed the sentinel, and the call wrote nothing to the word */
__CPROVER_ensures(!__CPROVER_return_value ==> (!lin && g_last_read == SENTINEL(self)))
/* true <=> its CAS installed op_state on top of a head that was not the sentinel, and op_state->next is that head */
__CPROVER_ensures(__CPROVER_return_value ==> (lin && lin_new == (void *) op_state && op_state->next == lin_old && lin_old != SENTINEL(self)))
__CPROVER_assigns(self->op_state_head, op_state->next, lin, lin_old, lin_new, g_last_read, g_interfered)
//@LIFT body

void harness(void)
{
  struct ss s;
  struct op o;
  vx_self = &s;
  vx_op = &o;
  lin = false;
  g_interfered = 0;
  s.next_state = NULL;
  s.op_state_head = (void *) nondet_ulong();
  o.next = NULL;
  void *before = s.op_state_head;
  bool r = add_op_state(&s, &o);
  if (r) VX_REACH("enqueued"); else VX_REACH("refused_queue_closed");
  if (r && before == NULL && lin_old == NULL) VX_REACH("enqueued_first");
  if (r && lin_old != before) VX_REACH("enqueued_after_interference");
  if (!r && before != SENTINEL(&s)) VX_REACH("refused_after_concurrent_done");
  if (!r && g_interfered >= 2) VX_REACH("refused_after_failed_cas");
}
